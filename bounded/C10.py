"""C10 bounded stand-in: HeapPriorityQueue / SortedPriorityQueue (and the BarrelList backend) against
a reference bag of live tasks (refmodels/prioqueue.py).

Contract (from the property statement), evaluated on every history of the scope:
  pop/peek return the live task of highest effective priority, earliest (re-)insertion among equals;
  they never return a removed / already popped task; len == number of live tasks;
  pop/peek on an empty queue raise IndexError or return the given default;
  both classes produce identical outcomes (return value / exception class) for every call.
After the last step of every history the queue is drained (peek, pop, len each time) = every reader
after every step.  The sorted backend (BarrelList) is also driven directly against a plain list:
insert at every index, pop at every index, append; len, truthiness, iteration and every item compared.
Only the calls the queues make (insort -> insert(i), 0 <= i <= len; pop(0); len; item access; iteration)
are judged; deviations of other list calls are recorded as `outside_statement_observations`, not failures.
`BarrelList._size_factor` is lowered in-process so that sub-lists of 0-3 items exist, and left at its
real value for runs that are long enough (> 22 100 entries) for the real split to happen.
"""
import os
import sys

sys.path.insert(0, os.path.dirname(os.path.dirname(os.path.abspath(__file__))))
from bounded.harness import Harness, main_wrapper  # noqa: E402
from refmodels.prioqueue import RefPriorityQueue  # noqa: E402

from boltons.queueutils import HeapPriorityQueue, SortedPriorityQueue  # noqa: E402
from boltons.listutils import BarrelList  # noqa: E402

TASKS = ['a', ('b', 0), None]
PRIOS_FULL = [None, 0, 1, 1.0, -1]
PRIOS_RED = [None, 1, -1]
DFLT = 'D!'
REAL_SF = getattr(BarrelList, '_size_factor', 1520)
CLASSES = (HeapPriorityQueue, SortedPriorityQueue)
FEAT = {'split': 'sorted backend split into several sub-lists', 'readd': 're-add of a live task',
        'remove': 'remove of a live task', 'ties': 'equal effective priorities',
        'key': 'priority_key given',
        'tombstones': 'hundreds of removed entries deep in the backend (few at the head)'}
HDR = ('from boltons.queueutils import HeapPriorityQueue, SortedPriorityQueue\n'
       'from boltons.listutils import BarrelList\n')


def ident(p):
    return p


def outcome(fn, args=()):
    "fn: callable or (object, method name); the lookup is part of the guarded call"
    try:
        return ('ret', (getattr(*fn) if isinstance(fn, tuple) else fn)(*args))
    except Exception as e:  # noqa
        return ('exc', type(e).__name__)


class FailBuf:
    """one triple per minimal set of history features: a failure whose feature set strictly contains
    the feature set of another failure of the same (clause, site) is counted under that one."""

    def __init__(self):
        self.d = {}

    def add(self, clause, site, feats, witness, detail, snip):
        slot = self.d.setdefault((clause, site), {})
        fs = frozenset(feats)
        size = len(repr(witness))
        cur = slot.get(fs)
        if cur is None or size < cur[0]:
            slot[fs] = (size, witness, detail, snip, (cur[4] if cur else 0) + 1)
        else:
            slot[fs] = cur[:4] + (cur[4] + 1,)

    def flush(self, H):
        for (clause, site), slot in sorted(self.d.items()):
            for fs, (size, witness, detail, snip, cnt) in slot.items():
                if any(o < fs for o in slot):
                    continue
                wclass = 'needs: ' + '; '.join(FEAT.get(f, f) for f in sorted(fs)) if fs else 'any history'
                for _ in range(cnt):
                    H.fail(clause, site, wclass, witness, detail, snip)


def queue_snippet(cls, sf, hist, exp, drain, key):
    return (HDR + 'BarrelList._size_factor = %r\nq = %s(%s)\nHIST = %r\nEXP = %r\nDRAIN = %r\nout = []\n'
            'for name, args in HIST:\n'
            '    try:\n        out.append(("ret", getattr(q, name)(*args)))\n'
            '    except Exception as e:\n        out.append(("exc", type(e).__name__))\n'
            'for o, e in zip(out, EXP):\n'
            '    assert e is None or (e == "noraise" and o[0] == "ret") or tuple(o) == tuple(e), (out, EXP)\n'
            'assert len(q) == len(DRAIN), (len(q), DRAIN)\n'
            'got = [q.pop() for _ in DRAIN]\nassert got == DRAIN, (got, DRAIN)\n'
            'try:\n    q.pop()\n    raise SystemExit(1)\nexcept IndexError:\n    pass\n'
            % (sf, cls.__name__, 'priority_key=lambda p: p' if key else '', list(hist), exp, drain))


def run_history(H, buf, hist, cfg, key=None):
    """replay hist on fresh queues; judge the last step and then every reader by draining.
    returns True when nothing failed (the history may be extended)."""
    label, sf = cfg
    BarrelList._size_factor = sf
    kw = {'priority_key': key} if key else {}
    M = RefPriorityQueue(key)
    feats = set(['key'] if key else [])
    try:
        qs = [c(**kw) for c in CLASSES]
    except Exception as e:  # noqa
        buf.add('constructs', 'BasePriorityQueue.__init__', feats, [label], repr(e), None)
        return False
    exps, outs = [], [None, None]
    for name, args in hist:
        pre_live, empty_last = set(M.live), not len(M)
        if name == 'add':
            if args[0] in M:
                feats.add('readd')
            M.add(*args)
            exp = 'noraise'
        elif name == 'remove':
            if args[0] in M:
                feats.add('remove')
                M.remove(args[0])
                exp = 'noraise'
            else:
                exp = None               # statement silent: any outcome, state unchanged
        else:
            if len(M):
                exp = ('ret', M.pop() if name == 'pop' else M.first())
            else:
                exp = ('ret', DFLT) if args else ('exc', 'IndexError')
        if M.has_ties():
            feats.add('ties')
        exps.append(exp)
        outs = [outcome((q, name), args) for q in qs]
    drain = M.order()
    ok = True
    wit = dict(factor=label, history=[[n] + list(a) for n, a in hist])
    name, args = hist[-1]
    exp = exps[-1]
    for c, q, o in zip(CLASSES, qs, outs):
        f = set(feats)
        if c is SortedPriorityQueue and sf != REAL_SF:
            f.add('split')
        site = '%s.%s' % (c.__name__, name)

        def bad(clause, detail, site=site, c=c, f=f):
            buf.add(clause, site, f, wit, detail, queue_snippet(c, sf, hist, exps, drain, key))
        if exp == 'noraise':
            if o[0] != 'ret':
                bad('add_remove_succeed', '%s%r raised %s' % (name, args, o[1]))
                ok = False
        elif exp is not None and o != exp:
            ok = False
            if empty_last:
                bad('empty_raises_or_default', '%s%r on empty queue -> %r, required %r' % (name, args, o, exp))
            elif o[0] == 'ret' and o[1] not in pre_live:
                bad('never_returns_dead', '%s%r -> %r which is not live; required %r' % (name, args, o, exp))
            else:
                bad('highest_priority_fifo', '%s%r -> %r, required %r' % (name, args, o, exp))
        if not ok:
            continue
        # readers after the step: len, then drain with peek/pop/len
        n = len(drain)
        got = outcome(len, (q,))
        if got != ('ret', n):
            bad('len_counts_live', 'len -> %r, live tasks %d' % (got, n), '%s.__len__' % c.__name__)
            ok = False
            continue
        for i, t in enumerate(drain):
            pk, pp = outcome((q, 'peek')), outcome((q, 'pop'))
            ln = outcome(len, (q,))
            if pk != ('ret', t) or pp != ('ret', t):
                r = pp if pp != ('ret', t) else pk
                cl = ('never_returns_dead' if r[0] == 'ret' and r[1] not in drain[i:] else 'highest_priority_fifo')
                bad(cl, 'draining: pop #%d peek/pop -> %r/%r, required %r (full order %r)' % (i, pk, pp, t, drain),
                    '%s.pop' % c.__name__)
                ok = False
                break
            if ln != ('ret', n - i - 1):
                bad('len_counts_live', 'len after pop #%d -> %r' % (i, ln), '%s.__len__' % c.__name__)
                ok = False
                break
        else:
            e = [outcome((q, 'pop')), outcome((q, 'peek')), outcome((q, 'pop'), (DFLT,)), outcome((q, 'peek'), (DFLT,)),
                 outcome((q, 'pop'), (None,)), outcome(len, (q,))]
            want = [('exc', 'IndexError')] * 2 + [('ret', DFLT)] * 2 + [('ret', None), ('ret', 0)]
            if e != want:
                bad('empty_raises_or_default', 'on the drained queue pop/peek/pop(d)/peek(d)/pop(None)/len -> %r' % (e,),
                    '%s.pop' % c.__name__)
                ok = False
    if outs[0] != outs[1] and (exp is None or exp == 'noraise'):
        buf.add('implementations_identical', 'HeapPriorityQueue/SortedPriorityQueue.%s' % name, feats, wit,
                '%s%r: heap -> %r, sorted -> %r' % (name, args, outs[0], outs[1]), None)
        ok = False
    return ok


def explore(H, buf, prios, L, cfgs, part, key=None, frac=0.5, last_cfgs=None, defaults=True):
    def alphabet(used):
        ops = []
        for ti in range(min(used + 1, len(TASKS))):
            ops += [('add', (TASKS[ti], p)) for p in prios] + [('remove', (TASKS[ti],))]
        return ops + [('pop', ()), ('peek', ())] + ([('pop', (DFLT,)), ('peek', (DFLT,))] if defaults else [])
    stack = [((), 0)]
    while stack:
        hist, used = stack.pop()
        for op in alphabet(used):
            h2 = hist + (op,)
            u2 = used
            if op[0] in ('add', 'remove') and TASKS.index(op[1][0]) == used:
                u2 = used + 1
            ok = True
            for cfg in (last_cfgs if last_cfgs and len(h2) == L else cfgs):
                H.ev(key=(part, cfg[0], h2), nontrivial=sum(1 for o in h2 if o[0] == 'add') >= 2, part=part,
                     sample=dict(factor=cfg[0], history=[[n] + list(a) for n, a in h2]))
                ok = run_history(H, buf, h2, cfg, key) and ok
            if ok and len(h2) < L:
                stack.append((h2, u2))
        if H.out_of_time(frac):
            H.note_truncated('%s: history enumeration stopped by the time budget' % part)
            break


# ---- BarrelList directly against a plain list -------------------------------------------------
def bl_snippet(sf, hist):
    return (HDR + 'BarrelList._size_factor = %r\nbl, ref = BarrelList(), []\n'
            'for name, args in %r:\n    r1 = getattr(bl, name)(*args)\n    r2 = getattr(ref, name)(*args)\n'
            '    assert r1 == r2, (name, args, r1, r2)\n'
            'assert list(bl) == ref and len(bl) == len(ref), (list(bl), ref)\n'
            'assert [bl[i] for i in range(-len(ref), len(ref))] == [ref[i] for i in range(-len(ref), len(ref))]\n'
            % (sf, list(hist)))


def shape_of(bl):
    ls = getattr(bl, 'lists', None)
    try:
        return tuple(len(x) for x in ls)
    except TypeError:
        return None


def bl_step_class(name, args, n):
    if name == 'append':
        return 'append'
    if not args:
        return 'no index'
    i = args[0]
    if name == 'insert':
        return 'index == len' if i == n else ('negative index' if i < 0 else '0 <= index < len')
    return 'index 0' if i == 0 else ('negative index' if i < 0 else '0 < index < len')


class Observe:
    """stand-in for the harness for BarrelList calls the queues never make (negative insert index, pop at
    an index other than 0, append): the statement does not cover them, deviations from list are only noted."""

    def __init__(self, H, record):
        self.H, self.record = H, record

    def fail(self, clause, site, wclass, witness, detail, snippet=None):
        if not self.record:
            return      # an in-profile call on a state only reachable out of profile
        obs = self.H.parts.setdefault('outside_statement_observations', {})
        k = '%s: %s' % (site, wclass)
        if k not in obs:
            obs[k] = dict(count=0, witness=witness, detail=detail)
        obs[k]['count'] += 1


def in_queue_profile(hist):
    "insort calls insert(i) with 0 <= i <= len, the queue pops index 0 only"
    return all((n == 'insert' and a[0] >= 0) or (n == 'pop' and a == (0,)) for n, a in hist)


def bl_check(H, sf, hist, bl, ref, pre_shape, ret, sflabel):
    """state after the last op of hist; returns True when every reader agrees"""
    name, args = hist[-1]
    if not in_queue_profile(hist):
        H = Observe(H, record=not in_queue_profile(hist[-1:]))
    n_pre = len(ref) + (1 if name == 'pop' else -1)
    multi = ', several sub-lists' if pre_shape is not None and len(pre_shape) > 1 else ''
    wc = bl_step_class(name, args, n_pre) + multi
    wit = dict(factor=sflabel, ops=[[n] + list(a) for n, a in hist])
    snip = bl_snippet(sf, hist)
    if ret[0] != ret[1]:
        H.fail('backend_list_view', 'BarrelList.' + name, wc, wit, 'returned %r, list returns %r' % ret, snip)
        return False
    n = len(ref)
    it = outcome(list, (bl,))
    if it != ('ret', ref):
        H.fail('backend_list_view', 'BarrelList.' + name, wc, wit, 'iteration %r, list is %r' % (it, ref), snip)
        return False
    ln, tr = outcome(len, (bl,)), outcome(bool, (bl,))
    if ln != ('ret', n) or tr != ('ret', n > 0):
        H.fail('backend_list_view', 'BarrelList.__len__', 'after ' + name + multi, wit,
               'len/bool -> %r/%r for %d items' % (ln, tr, n), snip)
        return False
    items = outcome(lambda: [bl[i] for i in range(-n, n)])
    if items != ('ret', [ref[i] for i in range(-n, n)]):
        H.fail('backend_list_view', 'BarrelList.__getitem__', 'valid index' + multi, wit,
               'items by index %r, list %r' % (items, ref), snip)
        return False
    return True


def bl_replay(sf, hist):
    BarrelList._size_factor = sf
    bl, ref = BarrelList(), []
    ret = (None, None)
    for name, args in hist:
        ret = (outcome((bl, name), args), outcome((ref, name), args))
    return bl, ref, ret


def barrel_bfs(H, sf, nmax, depth, part, frac):
    frontier, seen = [()], set()
    levels = []
    for d in range(depth):
        nxt = []
        for hist in frontier:
            bl, ref, _ = bl_replay(sf, hist)
            n, pre = len(ref), shape_of(bl)
            v = len(hist)
            ops = [('pop', (i,)) for i in range(-n, n)] + ([('pop', ())] if n else [])
            if n < nmax:
                ops += [('insert', (i, v)) for i in range(-n, n + 1)] + [('append', (v,))]
            for op in ops:
                h2 = hist + (op,)
                bl2, ref2, ret = bl_replay(sf, h2)
                H.ev(key=(part, h2), nontrivial=pre is None or len(pre) > 1, part=part,
                     sample=dict(size_factor=sf, ops=[[nm] + list(a) for nm, a in h2]))
                if not bl_check(H, sf, h2, bl2, ref2, pre, ret, str(sf)):
                    continue
                sh = shape_of(bl2)
                k = (sh, in_queue_profile(h2)) if sh is not None else h2
                if k not in seen:
                    seen.add(k)
                    nxt.append(h2)
            if H.out_of_time(frac):
                H.note_truncated('%s: BFS stopped by the time budget at depth %d' % (part, d + 1))
                return levels
        levels.append(len(nxt))
        frontier = nxt
        if not frontier:
            break
    return levels


def lcg(seed):
    x = seed * 2654435761 % 2 ** 32 or 1
    while True:
        x = (x * 1103515245 + 12345) % 2 ** 31
        yield x >> 8


def barrel_real(H, n_end, n_mixed, seed):
    """real _size_factor: insert at index == len (what insort does for a new maximum) until the list has
    split, then inserts/pops at mixed positions; every op judged at its own position, full compare at
    checkpoints."""
    BarrelList._size_factor = REAL_SF
    bl, ref = BarrelList(), []
    rnd = lcg(seed + 7)
    plan = [('end', None)] * n_end + [('mixed', None)] * n_mixed
    for step, (kind, _) in enumerate(plan):
        n = len(ref)
        pre = shape_of(bl)
        multi = ', several sub-lists' if pre is not None and len(pre) > 1 else ''
        r = next(rnd)
        if kind == 'end' or r % 8 < 5 or not n:
            i = n if (kind == 'end' or r % 3 == 0) else (r // 8) % (n + 1) if r % 3 == 1 else 0
            ref.insert(i, step)
            o = outcome((bl, 'insert'), (i, step))
            pos = ref.index(step) if kind != 'end' else n
            got = outcome(lambda: (len(bl), bl[pos]))
            good = o[0] == 'ret' and got == ('ret', (n + 1, step))
            name, wc = 'insert', bl_step_class('insert', (i,), n)
            detail = 'insert(%d, x) into %d items: len/item at that position -> %r' % (i, n, got)
        else:
            i = 0
            want = ('ret', ref.pop(i))
            o = outcome((bl, 'pop'), (i,))
            good = o == want and outcome(len, (bl,)) == ('ret', n - 1)
            name, wc = 'pop', bl_step_class('pop', (i,), n)
            detail = 'pop(%d) of %d items -> %r, list gives %r' % (i, n, o, want)
        H.ev(key=('real', step), nontrivial=bool(multi), part='barrel_real')
        if good and (step % 2000 == 1999 or step == len(plan) - 1):
            good = outcome(list, (bl,)) == ('ret', ref)
            detail = 'full comparison after %d operations differs' % (step + 1)
        if not good:
            snip = (HDR + 'bl = BarrelList()\nfor i in range(%d):\n    bl.insert(len(bl), i)\n'
                    'assert list(bl) == list(range(%d)), [i for i, x in enumerate(bl) if i != x][:5]\n' % (n_end, n_end))
            H.fail('backend_list_view', 'BarrelList.' + name, wc + multi,
                   dict(factor='real (%r)' % REAL_SF, items=n, step=step), detail, snip)
            return shape_of(bl)
    return shape_of(bl)


def queue_large(H, buf, N, seed):
    """real factor, N adds (mostly new minima of effective priority = insort at index == len), some removes,
    re-adds, interleaved pops; then a full drain compared with the model order."""
    BarrelList._size_factor = REAL_SF
    qs = [c() for c in CLASSES]
    M = RefPriorityQueue()
    rnd = lcg(seed + 11)
    alive = [True, True]
    wit = dict(factor='real (%r)' % REAL_SF, adds=N)
    snip = (HDR + 'q = SortedPriorityQueue()\nN = %d\nfor i in range(N):\n    q.add(i, -i)\n'
            'out = [q.pop() for _ in range(N)]\n'
            'assert out == list(range(N)), [(i, x) for i, x in enumerate(out) if i != x][:5]\n' % N)

    def both(name, args, exp):
        for k, q in enumerate(qs):
            if alive[k]:
                o = outcome((q, name), args)
                if (exp == 'noraise' and o[0] != 'ret') or (exp != 'noraise' and o != exp):
                    alive[k] = False
                    report(k, name, '%s%r -> %r, required %r (live tasks %d)' % (name, args, o, exp, len(M)))

    def report(k, name, detail):
        other_ok = alive[1 - k]
        feats = {'split'} if (k == 1 and other_ok) else {'readd', 'remove', 'ties'}
        buf.add('highest_priority_fifo', '%s.%s' % (CLASSES[k].__name__, name), feats, wit, detail, snip)

    for i in range(N):
        r = next(rnd)
        p = (r % 1000) if i % 7 == 0 else -i
        M.add(i, p)
        both('add', (i, p), 'noraise')
        H.ev(key=('large', i), nontrivial=True, part='queue_large')
    live = list(M.live)
    for j in range(300):
        t = live[next(rnd) % len(live)]
        if t in M:
            M.remove(t)
            both('remove', (t,), 'noraise')
        t = live[next(rnd) % len(live)]
        p = [None, -N - j, next(rnd) % 1000, 0.5][j % 4]
        M.add(t, p)
        both('add', (t, p), 'noraise')
        if j % 6 == 0:
            both('peek', (), ('ret', M.first()))
            both('pop', (), ('ret', M.pop()))
    order = M.order()
    for k, q in enumerate(qs):
        if not alive[k]:
            continue
        if outcome(len, (q,)) != ('ret', len(order)):
            report(k, '__len__', 'len -> %r, live %d' % (outcome(len, (q,)), len(order)))
            continue
        got = [outcome((q, 'pop')) for _ in order]
        want = [('ret', t) for t in order]
        if got != want:
            first = next(i for i in range(len(order)) if got[i] != want[i])
            alive[k] = False
            report(k, 'pop', 'draining %d tasks: pop #%d -> %r, required %r' % (len(order), first, got[first], want[first]))
        elif outcome((q, 'pop')) != ('exc', 'IndexError') or outcome(len, (q,)) != ('ret', 0):
            report(k, 'pop', 'drained queue: pop does not raise IndexError or len != 0')
        H.ev(key=('large-drain', k), nontrivial=True, part='queue_large')


def queue_churn(H, buf, live_n, ops, seed):
    """few live tasks, very many tombstones: every re-add leaves a dead entry behind, so the backend grows to hundreds of
    mostly-dead entries (the regime in which any cleanup of removed entries other than culling at the head would act)."""
    BarrelList._size_factor = REAL_SF
    qs = [c() for c in CLASSES]
    M = RefPriorityQueue()
    rnd = lcg(seed + 29)
    alive = [True, True]
    wit = dict(live_tasks=live_n, operations=ops, kind='re-add churn')
    snip = (HDR + 'import random\nrnd = random.Random(3)\nfor Q in (HeapPriorityQueue, SortedPriorityQueue):\n    q = Q(); ref = {}\n'
            '    n = 0\n    for i in range(%d):\n        t = rnd.randrange(%d); p = rnd.randrange(50)\n        q.add(t, p); n += 1; ref[t] = (-p, n)\n'
            '    out = [q.pop() for _ in range(len(ref))]\n    assert out == sorted(ref, key=ref.get), (Q.__name__, out)\n' % (ops, live_n))

    def both(name, args, exp):
        for k, q in enumerate(qs):
            if alive[k]:
                o = outcome((q, name), args)
                if (exp == 'noraise' and o[0] != 'ret') or (exp != 'noraise' and o != exp):
                    alive[k] = False
                    buf.add('highest_priority_fifo', '%s.%s' % (CLASSES[k].__name__, name), {'readd', 'tombstones'}, wit,
                            '%s%r -> %r, required %r (live %d, after %d operations)' % (name, args, o, exp, len(M), i), snip)

    # two tasks of very high priority stay at the head for the whole run, so the tombstones of the churning tasks sink
    # into the backend instead of being culled at the head by peek/pop
    for t in (0, 1):
        M.add(t, 1000)
        both('add', (t, 1000), 'noraise')
    i = 0
    for i in range(ops):
        t = 2 + next(rnd) % max(1, live_n - 2)
        pr = next(rnd) % 50
        M.add(t, pr)
        both('add', (t, pr), 'noraise')
        if i % 97 == 0:
            both('peek', (), ('ret', M.first()))
        H.ev(key=('churn', live_n, i), nontrivial=True, part='queue_churn')
    order = M.order()
    for k, q in enumerate(qs):
        if alive[k]:
            got = [outcome((q, 'pop')) for _ in order]
            want = [('ret', t) for t in order]
            if got != want or outcome(len, (q,)) != ('ret', 0):
                buf.add('highest_priority_fifo', '%s.pop' % CLASSES[k].__name__, {'readd', 'tombstones'}, wit,
                        'drain after churn: %r, required %r' % (got[:8], want[:8]), snip)


def queue_mass_remove(H, buf, n_tasks, keep, seed):
    """thousands of tasks, most of them removed in an order unrelated to priority, a few late arrivals, then a full drain:
    the regime in which any bulk clean-up of removed entries inside remove() would act"""
    BarrelList._size_factor = REAL_SF
    qs = [c() for c in CLASSES]
    M = RefPriorityQueue()
    rnd = lcg(seed + 41)
    alive = [True, True]
    wit = dict(tasks=n_tasks, removed=n_tasks - keep, kind='mass removal')
    snip = (HDR + 'import random\nrnd = random.Random(5)\nfor Q in (HeapPriorityQueue, SortedPriorityQueue):\n    q = Q(); ref = {}\n'
            '    for i in range(%d):\n        p = rnd.randrange(60); q.add(i, p); ref[i] = (-p, i)\n'
            '    vs = list(ref); rnd.shuffle(vs)\n    for t in vs[:%d]:\n        q.remove(t); del ref[t]\n'
            '    out = [q.pop() for _ in range(len(ref))]\n    assert out == sorted(ref, key=ref.get), (Q.__name__, out[:10])\n'
            % (n_tasks, n_tasks - keep))

    def both(name, args, exp, i):
        for k, q in enumerate(qs):
            if alive[k]:
                o = outcome((q, name), args)
                if (exp == 'noraise' and o[0] != 'ret') or (exp != 'noraise' and o != exp):
                    alive[k] = False
                    buf.add('highest_priority_fifo', '%s.%s' % (CLASSES[k].__name__, name), {'remove', 'tombstones'}, wit,
                            '%s%r -> %r, required %r (live %d, after %d operations)' % (name, args[:1], o, exp, len(M), i), snip)
    prios = [None, 0, 1, 2.5, 7, 40, 41, 99, 1000, -3]
    for t in range(n_tasks):
        pr = prios[next(rnd) % len(prios)]
        M.add(t, pr)
        both('add', (t, pr), 'noraise', t)
    victims = list(range(n_tasks))
    for j in range(n_tasks - 1, 0, -1):                     # Fisher-Yates with the harness generator
        r = next(rnd) % (j + 1)
        victims[j], victims[r] = victims[r], victims[j]
    for i, t in enumerate(victims[:n_tasks - keep]):
        M.remove(t)
        both('remove', (t,), 'noraise', i)
        if i % 211 == 0:
            both('peek', (), ('ret', M.first()), i)
            H.ev(key=('massrm', n_tasks, i), nontrivial=True, part='queue_mass_remove')
    for i in range(40):
        t, pr = n_tasks + i, prios[next(rnd) % len(prios)]
        M.add(t, pr)
        both('add', (t, pr), 'noraise', i)
    order = M.order()
    for k, q in enumerate(qs):
        if alive[k]:
            got = [outcome((q, 'pop')) for _ in order]
            want = [('ret', t) for t in order]
            if got != want or outcome(len, (q,)) != ('ret', 0):
                bad = next((j for j, (a, b) in enumerate(zip(got, want)) if a != b), len(want))
                buf.add('highest_priority_fifo', '%s.pop' % CLASSES[k].__name__, {'remove', 'tombstones'}, wit,
                        'drain after mass removal differs at pop %d: %r, required %r' % (bad, got[bad:bad + 4], want[bad:bad + 4]), snip)


def queue_failed_add(H, buf):
    """an add() whose priority cannot be converted raises - and must leave the queue as it was: a task that was neither
    removed nor popped is still there, with its old priority and arrival position"""
    class Bad(object):
        def __float__(self):
            raise ValueError('not a priority')
    for bad in ('not a number', Bad(), [1]):
        for cls in CLASSES:
            for target in ('b', 'new'):
                q = cls()
                for t, p in (('a', 1), ('b', 5), ('c', 3)):
                    q.add(t, p)
                wit = dict(cls=cls.__name__, history="add a:1, b:5, c:3; add(%r, %s) raises" % (target, type(bad).__name__))
                H.ev(key=('failed-add', cls.__name__, type(bad).__name__, target), nontrivial=True, part='queue_failed_add', sample=wit)
                raised = outcome((q, 'add'), (target, bad))
                if raised[0] == 'ret':
                    continue                      # this priority is accepted by the implementation: nothing to compare
                got = (outcome(len, (q,)), [outcome((q, 'pop')) for _ in range(3)], outcome((q, 'pop'), ('empty',)))
                want = (('ret', 3), [('ret', 'b'), ('ret', 'c'), ('ret', 'a')], ('ret', 'empty'))
                if got != want:
                    buf.add('never_returns_removed_len_is_live', '%s.add' % cls.__name__, {'readd'} if target == 'b' else set(), wit,
                            'after the failed add: len, pops, pop(default) = %r, required %r' % (got, want),
                            HDR + 'q = %s()\nfor t, p in (("a", 1), ("b", 5), ("c", 3)): q.add(t, p)\ntry: q.add("b", "not a number")\n'
                            'except Exception: pass\nassert len(q) == 3 and [q.pop() for _ in range(3)] == ["b", "c", "a"]\n' % cls.__name__)


def run():
    H = Harness('C10',
                rule='a case is one (size factor, history) on both queue classes, judged at its last call and then '
                     'by draining the queue with peek/pop/len (every reader after every step), or one BarrelList '
                     'operation history compared with a plain list; non-trivial = at least two adds (queues) / the '
                     'BarrelList had several sub-lists before the operation',
                bounds=dict(
                    quick='queues: all histories <= 4 over 3 tasks x priorities {None,0,1,1.0,-1} + remove/pop/peek '
                          '(with and without default), <= 5 over priorities {None,1,-1} + remove/pop/peek; tasks first '
                          'used in fixed order; every history with the real size factor and with _size_factor 0.5 and 1 '
                          '(longest level: real + 0.5, resp. 0.5 only); priority_key histories <= 3; BarrelList in the '
                          'queue call profile (insert 0..len, pop(0)) and beyond it (observations only): breadth-first '
                          'over all insert/pop/append instances from every distinct sub-list shape, factor 0.5/1/2, '
                          '<= 7 items, depth <= 9; real factor: 23 500 end inserts + 3 000 mixed inserts/pop(0), and one '
                          '23 500-task queue run (adds, 300 removes/re-adds, pops, full drain); re-add churn (8/40/200 live tasks x 2 500 re-adds); '
                          'mass removal (4 000 tasks, 3 400 removed in random order, 40 late arrivals, full drain)',
                    thorough='as quick with histories <= 5 (full priorities) / <= 6 (reduced), factor 2 added, '
                             'BarrelList <= 9-12 items depth <= 11-14 (factors 0.5/1/2/3), real factor 45 000 end '
                             'inserts + 20 000 mixed ops, 45 000-task queue run, seeded extra 26 000-task run'))
    buf = FailBuf()
    real = ('real', REAL_SF)
    try:
        lowered = [('0.5', 0.5), ('1', 1)] + ([('2', 2)] if H.thorough else [])
        # real factor at a size where the real split happens (first: cheap and the realistic witness)
        shape = barrel_real(H, 45000 if H.thorough else 23500, 20000 if H.thorough else 3000, H.seed)
        if shape is not None and len(shape) < 2:
            H.note_truncated('real-factor BarrelList run ended with a single sub-list: %r' % (shape,))
        queue_large(H, buf, 45000 if H.thorough else 23500, H.seed)
        for live_n in (8, 40, 200):
            queue_churn(H, buf, live_n, 2500, H.seed)
        queue_mass_remove(H, buf, 4000, 600, H.seed)
        queue_failed_add(H, buf)
        if H.thorough:
            queue_mass_remove(H, buf, 9000, 300, H.seed + 3)
        if H.thorough:
            queue_large(H, buf, 26000, H.seed + 1)
        plan = ((1, 7, 9, .12), (0.5, 7, 9, .2), (2, 7, 9, .25)) if not H.thorough else \
            ((1, 9, 12, .06), (0.5, 9, 11, .12), (2, 10, 14, .15), (3, 12, 14, .18))
        for sf, nmax, depth, frac in plan:
            lv = barrel_bfs(H, sf, nmax, depth, 'barrel_bfs_%s' % sf, frac)
            H.parts['barrel_bfs_%s_new_shapes_per_depth' % sf] = lv
        last = [real] + lowered[:1]
        explore(H, buf, PRIOS_FULL, 5 if H.thorough else 4, [real] + lowered, 'queues_full', frac=0.45, last_cfgs=last)
        explore(H, buf, PRIOS_RED, 6 if H.thorough else 5, [real] + lowered, 'queues_reduced', frac=0.7,
                last_cfgs=lowered[:1], defaults=False)
        explore(H, buf, [0, 1, -1, 0.5], 4 if H.thorough else 3, [real, ('1', 1)], 'queues_priority_key', key=ident,
                frac=0.75)
    finally:
        BarrelList._size_factor = REAL_SF
    buf.flush(H)
    H.finish()


main_wrapper(run)
