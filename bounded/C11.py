"""C11 bounded stand-in: boltons.setutils.IndexedSet against a plain list + builtin sets
(refmodels/ordered_set.py).

Contract (from the property statement), evaluated on the seed state and after every step of every history:
  list(s), len, `in`, count, reversed, s[i] for every valid i (negative too), s[i:j:k] (k > 0, bounds valid
  for the length), index(x)  ==  the same on the model list;
  union/intersection/difference (0, 1, 2+ operands), symmetric_difference (1), operators, reflected
  operators (contents), issubset/issuperset/isdisjoint == builtin set results, ordered by first appearance in
  self then in the operands; the *_update / in-place operator forms leave exactly that in the set.
Seeds are built through the public API so that tombstone runs exist without compaction, the 1/8 compaction
threshold is one deletion away, the trailing tombstone cull is reachable, and > 384 runs exist (3 200 items).
"""
import operator
import os
import sys
import time

sys.path.insert(0, os.path.dirname(os.path.dirname(os.path.abspath(__file__))))
from bounded.harness import Harness, main_wrapper  # noqa: E402
from refmodels.ordered_set import RefOrderedSet  # noqa: E402

from boltons.setutils import IndexedSet  # noqa: E402

HDR = 'from boltons.setutils import IndexedSet\n'
INPLACE = {'|=': (operator.ior, 'update'), '&=': (operator.iand, 'intersection_update'),
           '-=': (operator.isub, 'difference_update'), '^=': (operator.ixor, 'symmetric_difference_update')}
BINOPS = {'|': (operator.or_, 'union'), '&': (operator.and_, 'intersection'), '-': (operator.sub, 'difference'),
          '^': (operator.xor, 'symmetric_difference')}
OPSITE = {'|': '__or__', '&': '__and__', '-': '__sub__', '^': '__xor__', 'r|': '__ror__', 'r&': '__rand__',
          'r-': '__rsub__', 'r^': '__rxor__', '|=': '__ior__', '&=': '__iand__', '-=': '__isub__', '^=': '__ixor__'}
NONTAIL, TAILAFTER = 'after non-tail deletions', 'then a deletion of the tail item'


class _Self:
    def __repr__(self):
        return 's'


SELF = _Self()


class T:
    "operand built when the operation is applied (every call gets its own object)"

    def __init__(self, typ, items):
        self.typ, self.items = typ, items

    def make(self):
        return self.typ(self.items)
EVERY_OTHER = list(range(0, 768, 2))
SEEDS = [  # name, number of items, items removed one by one (public API)
    ('empty', 0, []), ('3 items', 3, []), ('9 items, 1 dead run', 9, [2]), ('17 items, 2 dead runs', 17, [3, 9]),
    ('16 items at the 1/8 threshold', 16, [1, 8]), ('26 items, merged run, at the threshold', 26, [3, 4, 12]),
    ('40 items, dead run next to the tail', 40, [10, 38]),
    ('3200 items, 384 dead runs', 3200, EVERY_OTHER),
    ('3200 items, 384 runs and 400 dead (1/8)', 3200, EVERY_OTHER + list(range(1, 64, 4))),
    ('3200 items, just compacted (385th run)', 3200, EVERY_OTHER + [768]),
]


def outcome(fn, *args, **kw):
    "fn: callable or (object, method name); the lookup is part of the guarded call"
    try:
        return ('ret', (getattr(*fn) if isinstance(fn, tuple) else fn)(*args, **kw))
    except Exception as e:  # noqa
        return ('exc', type(e).__name__)


def src_of(op):
    name, args, kw = op
    if name in INPLACE:
        return 's %s %r' % (name, args[0])
    parts = [repr(a) for a in args] + ['%s=%r' % kv for kv in sorted(kw.items())]
    return 's.%s(%s)' % (name, ', '.join(parts))


class FailBuf:
    """one triple per minimal feature set: a failure whose features strictly contain those of another failure of
    the same (clause, site) is counted under that one (stable whatever the enumeration order)."""

    def __init__(self):
        self.d = {}

    def add(self, clause, site, feats, witness, detail, snip):
        slot = self.d.setdefault((clause, site), {})
        fs, size = frozenset(feats), len(repr(witness))
        cur = slot.get(fs)
        if cur is None or size < cur[0]:
            slot[fs] = (size, witness, detail, snip, (cur[4] if cur else 0) + 1)
        else:
            slot[fs] = cur[:4] + (cur[4] + 1,)

    def flush(self, H):
        for (clause, site), slot in sorted(self.d.items()):
            for fs, (size, witness, detail, snip, cnt) in slot.items():
                if not any(o < fs for o in slot):
                    for _ in range(cnt):
                        H.fail(clause, site, '; '.join(sorted(fs)) or 'any state', witness, detail, snip)


class Run:
    "the real IndexedSet and the model driven side by side from a seed"

    def __init__(self, seed):
        self.name, n, removed = seed
        self.lines = ['s = IndexedSet(range(%d))' % n]
        if removed:
            self.lines.append('for r in %s: s.remove(r)' % (
                'list(range(0, 768, 2))' + (' + %r' % removed[384:] if removed[384:] else '')
                if removed[:384] == EVERY_OTHER else repr(removed)))
        self.s, self.R, self.flags = IndexedSet(range(n)), RefOrderedSet(range(n)), set()
        self.nseed = len(self.lines)
        for r in removed:           # same bookkeeping as apply(), without the per-step model copies
            if r != self.R.m[-1]:
                self.flags.add(NONTAIL)
            elif self.flags:
                self.flags.add(TAILAFTER)
            self.s.remove(r)
            self.R.m.remove(r)

    def apply(self, op):
        """model first, then the real object.  returns (real outcome, expected) where expected is
        ('ret', v) / ('raises',) / None (statement silent)"""
        op = self.last_op = (op[0], tuple(a.make() if isinstance(a, T) else a for a in op[1]), op[2])
        name, args, kw = op
        before = list(self.R.m)
        margs = [list(before) if a is SELF else a for a in args]
        rargs = [self.s if a is SELF else a for a in args]
        mname = INPLACE[name][1] if name in INPLACE else name
        exp = outcome((self.R, mname), *margs, **kw)
        if exp[0] == 'exc':
            exp = None if name == 'remove' else ('raises',)
        elif name != 'pop':
            exp = ('ret', None)
        after = self.R.m
        if not after:
            self.flags = set()
        else:
            gone = set(before) - set(after)
            if gone:
                keep = len(before) - len(gone)
                tail_only = all(x in gone for x in before[keep:])
                if not tail_only:
                    self.flags.add(NONTAIL)
                if NONTAIL in self.flags and before[-1] in gone:
                    self.flags.add(TAILAFTER)
        if name in INPLACE:
            got = outcome(INPLACE[name][0], self.s, rargs[0])
            if got[0] == 'ret':     # `s |= x` rebinds s to whatever the operator returns
                self.s, got = got[1], ('ret', None)
        else:
            got = outcome((self.s, name), *rargs, **kw)
            if name != 'pop' and got[0] == 'ret':
                got = ('ret', None)
        line = src_of(op)
        self.lines.append(line if exp not in (None, ('raises',)) else 'try: %s\nexcept Exception: pass' % line)
        return got, exp

    def snippet(self, expr, want):
        if isinstance(want, list) and len(want) > 60:
            expr, want = '(lambda g: (len(g), g[:10], g[-10:]))(%s)' % expr, (len(want), want[:10], want[-10:])
        return HDR + '\n'.join(self.lines) + '\ngot = %s\nassert got == %r, got\n' % (expr, want)


def fresh(m, k=2):
    out, x = [], 9001
    while len(out) < k:
        if x not in m:
            out.append(x)
        x += 1
    return out


def mutators(m, mode=0):
    "operation instances relative to the model state; mode 0 full, 1 reduced, 2 tiny (deletions and add only)"
    n = len(m)
    f1, f2 = fresh(m)
    P = sorted(set(p for p in (0, 1, n // 2, n - 2, n - 1) if 0 <= p < n))
    big = n > 100
    seq = set if big else list
    ops = [('add', (f1,), {}), ('remove', (f1,), {}), ('discard', (f1,), {}), ('pop', (), {}), ('clear', (), {}),
           ('sort', (), {}), ('sort', (), {'reverse': True}), ('reverse', (), {}), ('update', (), {}),
           ('intersection_update', (), {}), ('difference_update', (), {}), ('difference_update', (SELF,), {}),
           ('symmetric_difference_update', (SELF,), {}), ('symmetric_difference_update', ([f1, f1, f2],), {})]
    if n:
        a, b, c = m[0], m[n // 2], m[-1]
        OA, OB = [c, f1, a], [f2, b, f1]
        K1, K2 = [x for x in m if x not in (m[1 % n], c)] + [f1], m[1:]
        ops += [('add', (a,), {})] + [('remove', (m[p],), {}) for p in P] + [('discard', (m[1 % n],), {})]
        ops += [('pop', (p,), {}) for p in P] + [('pop', (-2,), {}), ('pop', (-n,), {})][:2 if n > 1 else 0]
        if mode == 2:
            return [o for o in ops if o[0] in ('add', 'remove', 'discard', 'pop') and o[1] != (f1,) or o[:2] == ('add', (f1,))]
        ops += [('update', (T(list, OA),), {}), ('update', (T(set, OA), T(tuple, OB)), {}), ('|=', (T(IndexedSet, OB),), {}),
                ('intersection_update', (T(frozenset, K1),), {}), ('intersection_update', (T(seq, K1), T(IndexedSet, K2)), {}),
                ('&=', (T(set, K2),), {}),
                ('difference_update', (T(set, [b, f1]),), {}), ('difference_update', ([b, f1], (a, f2)), {}),
                ('-=', (T(IndexedSet, [a, f2]),), {}),
                ('symmetric_difference_update', ([c, f1, a],), {}), ('^=', (T(set, OA),), {})]
        if not mode:
            ops += [('update', (T(frozenset, OB),), {}), ('update', (T(IndexedSet, OA),), {}), ('|=', (T(set, OA),), {}),
                    ('intersection_update', (T(frozenset if big else tuple, K2),), {}),
                    ('-=', (T(frozenset, [b, f1]),), {}), ('^=', (T(IndexedSet, OA),), {}),
                    ('symmetric_difference_update', (T(set, OA),), {})]
    if mode == 1:
        ops = [o for o in ops if o[0] not in ('sort', 'reverse') and o[1:] != ((), {}) or o[0] in ('pop', 'clear')]
    return ops


def opclass(op, m_before):
    "class of the call = what the arguments need in order to fail"
    name, args, kw = op
    n = len(m_before)
    if name == 'add':
        return 'present item' if args[0] in m_before else 'new item'
    if name in ('remove', 'discard'):
        return 'absent item' if args[0] not in m_before else \
            'tail item' if args[0] == m_before[-1] else 'non-tail item'
    if name == 'pop':
        return 'no index or tail index' if not args or args[0] in (-1, n - 1) else 'non-tail index'
    if name in ('clear', 'sort', 'reverse'):
        return 'any'
    return operands_class(args)


def operands_class(args):
    c = 'one operand' if len(args) == 1 else 'operand count other than one'
    if any(isinstance(a, (list, tuple)) and len(set(a)) < len(a) for a in args):
        c += ', list/tuple with a repeated item'
    if any(a is SELF for a in args):
        c += ', self as operand'
    return c


def pure_calls(m, light=False):
    "non-mutating set algebra battery: (name, args, kind) kind in list|set|bool"
    n = len(m)
    f1, f2 = fresh(m)
    big = n > 100
    a, b, c = (m[0], m[n // 2], m[-1]) if n else (f2, f2, f2)
    OA, OB, D = [c, f1, a], [f2, b, f1], [a, a, f1]
    sub, sup = m[1:], m + [f1]
    calls = [('union', ()), ('union', (list(OA),)), ('union', (set(OA), tuple(OB))), ('union', (IndexedSet(OB),)),
             ('union', (frozenset(OA), list(OB), tuple(D))),
             ('intersection', ()), ('intersection', (list(OA),)), ('intersection', (set(sub + [f1]),)),
             ('intersection', (IndexedSet(sub), frozenset(m[:-1] + [f1]))), ('intersection', (tuple(D), set(OA))),
             ('difference', ()), ('difference', (set(OA),)), ('difference', (list(OA), frozenset(OB))),
             ('difference', (IndexedSet(OB),)), ('difference', (SELF,)),
             ('symmetric_difference', (list(OA),)), ('symmetric_difference', (set(OA),)),
             ('symmetric_difference', (tuple(D),)), ('symmetric_difference', (IndexedSet(OB),)),
             ('symmetric_difference', (SELF,)),
             ('|', (set(OA),)), ('|', (IndexedSet(OB),)), ('&', (frozenset(OA),)), ('-', (set(OA),)),
             ('^', (set(OA),)), ('^', (IndexedSet(OA),)),
             ('r|', (set(OA),)), ('r&', (set(OA),)), ('r-', (set(OA),)), ('r^', (frozenset(OA),)),
             ('issubset', (set(sup),)), ('issubset', (set(sub),)), ('issubset', (list(OA),)), ('issubset', (SELF,)),
             ('issubset', (IndexedSet(sup),)),
             ('issuperset', (list(OA),)), ('issuperset', ((a, b),)), ('issuperset', ([a] * (n + 1),)),
             ('issuperset', (tuple(D),)), ('issuperset', ([],)), ('issuperset', (frozenset(sub),)),
             ('isdisjoint', ([f1, f2],)), ('isdisjoint', (tuple(OA),)), ('isdisjoint', ([],)),
             ('isdisjoint', (IndexedSet(OB),)), ('isdisjoint', (set(OA),))]
    if not big:
        calls += [('issubset', (list(sup) + [a],)), ('issubset', (tuple(sub),)), ('intersection', (list(sub), tuple(sup)))]
    if big or light:   # one call per (name, operand count); the cheap predicates all when results have ~n items
        seen = set()
        calls = [c for c in calls if (big and c[0].startswith('is')) or
                 not ((c[0], len(c[1])) in seen or seen.add((c[0], len(c[1]))))]
    return calls


def check_pure(run, found, light=False):
    s, R = run.s, run.R
    m = list(R.m)
    for name, args in pure_calls(m, light):
        margs = [list(m) if x is SELF else x for x in args]
        rargs = [s if x is SELF else x for x in args]
        if name in BINOPS:
            fn, mname = BINOPS[name]
            got, src = outcome(fn, s, rargs[0]), 'list(s %s %r)' % (name, args[0])
        elif name in OPSITE:
            fn, mname = BINOPS[name[1]]
            got, src = outcome(fn, rargs[0], s), 'sorted(%r %s s)' % (args[0], name[1])
        else:
            mname = name
            got, src = outcome((s, name), *rargs), 's.%s(%s)' % (name, ', '.join(map(repr, args)))
            if not name.startswith('is'):
                src = 'list(%s)' % src
        if name == 'r-':
            want = [x for x in margs[0] if x not in m]
        else:
            want = getattr(R, mname)(*margs)
        if name in OPSITE and name[0] == 'r':
            want = sorted(want)
            if got[0] == 'ret':
                got = outcome(sorted, got[1])
        elif not name.startswith('is') and got[0] == 'ret':
            got = outcome(list, got[1])
        if got != ('ret', want):
            clause = 'set_predicates' if name.startswith('is') else 'set_algebra'
            site = 'IndexedSet.' + OPSITE.get(name, name)
            found.append((clause, site, {operands_class(args)}, src, got, want))
    if outcome(list, s) != ('ret', m):
        found.append(('set_algebra', 'IndexedSet.union', {'non-mutating call changed the set'}, 'list(s)',
                      outcome(list, s), m))


def slice_args(n, level):
    if level == 'full':
        B = [None] + list(range(-n, n + 1))
        return [(i, j, k) for i in B for j in B for k in (None, 1, 2, 3)]
    if level == 'medium':
        B = [None] + list(range(0, n + 1)) + sorted(set(b for b in (-1, -2, -(n // 2), -n) if -n <= b < 0))
        return [(i, j, k) for i in B for j in B for k in (None, 2)]
    if level == 'small':
        B = sorted(set(b for b in (0, 1, n // 2, n - 1, n, -1, -n) if -n <= b <= n), key=abs) + [None]
        return [(i, j, None) for i in B for j in B] + [(i, None, k) for i in B for k in (2, 3)]
    return [(None, 5, None), (3, 9, None), (380, 390, None), (382, 388, 2), (766, 775, None), (n - 5, None, None),
            (-4, -1, None), (0, n, 397), (-n, 12, 5), (383, 386, None), (n // 2, n // 2 + 3, None)]


def check_readers(run, level, found):
    "every reader of the statement on the current state; appends (clause, site, features, expr, got, want)"
    s, m, fl = run.s, run.R.m, set(run.flags)
    n = len(m)
    absent = fresh(m, 1)[0]
    if level == 'sampled':
        idx = sorted(set(i for i in list(range(0, 12)) + list(range(378, 392)) + [n // 2, n - 2, n - 1, 766, 767, 768, 1000]
                         if i < n))
        idx = idx + [-1, -2, -n, -n + 1, -(n // 2)] if n > 1 else idx
    else:
        idx = list(range(-n, n))
    members = [m[i] for i in idx if i >= 0]

    def cmp(clause, site, expr, fn, want, feats=fl):
        got = outcome(fn)
        if got != ('ret', want):
            found.append((clause, 'IndexedSet.' + site, feats, expr, got, want))
            return False
        return True
    cmp('len', '__len__', 'len(s)', lambda: len(s), n)
    cmp('reversed', '__reversed__', 'list(reversed(s))', lambda: list(reversed(s)), m[::-1])
    cmp('membership', '__contains__', '[x in s for x in %r]' % (members[:40] + [absent],),
        lambda: [x in s for x in members[:40] + [absent]], [True] * len(members[:40]) + [False])
    cmp('membership', 'count', '[s.count(x) for x in %r]' % (members[:40] + [absent],),
        lambda: [s.count(x) for x in members[:40] + [absent]], [1] * len(members[:40]) + [0])
    for i in idx:
        if not cmp('getitem_index', '__getitem__', 's[%d]' % i, lambda: s[i], m[i]):
            break
    for i in idx:
        if i >= 0 and not cmp('index_of', 'index', 's.index(%r)' % (m[i],), lambda: s.index(m[i]), i):
            break
    got = outcome((s, 'index'), absent)
    if got[0] != 'exc':
        found.append(('index_of', 'IndexedSet.index', {'absent item'}, 's.index(%r)' % absent, got, 'an exception'))
    for i, j, k in slice_args(n, level):
        sl = slice(i, j, k)
        if not cmp('slice', '__getitem__', 'list(s[%s:%s%s])' % ('' if i is None else i, '' if j is None else j,
                                                                   '' if k is None else ':%d' % k),
                   lambda: list(s[sl]), m[sl]):
            break


def level_for(n, depth):
    if n > 100:
        return 'sampled'
    if n <= 9 and depth <= 1:
        return 'full'
    return 'medium' if (n <= 40 and depth <= 1) or (n <= 9 and depth <= 2) else 'small'


def judge(H, buf, run, depth, op=None, res=None, m_before=None):
    """after a step (or on the seed): the step's own contract, then every reader.
    returns True when the history may be extended"""
    found = []
    wit = dict(seed=run.name, history=run.lines[run.nseed:])
    state = outcome(list, run.s)
    ok = True
    if op is not None:
        got, exp = res
        name = op[0]
        site = 'IndexedSet.' + OPSITE.get(name, name)
        clause = 'list_style_ops' if name in ('add', 'remove', 'discard', 'pop', 'clear', 'sort', 'reverse') \
            else 'inplace_set_ops'
        feats = {opclass(op, m_before)} | (run.flags if clause == 'list_style_ops' else set())
        bad = None
        if exp == ('raises',):
            bad = got[0] != 'exc' and 'returned %r where a list raises' % (got[1],)
        elif exp is not None and got != exp:
            bad = 'call -> %r, required %r' % (got, exp)
        if not bad and state != ('ret', run.R.m):
            bad = 'set afterwards %s, required %s' % (short(state), short(run.R.m))
        if bad:
            buf.add(clause, site, feats, wit, bad, run.snippet('list(s)', list(run.R.m)))
            return False
    elif state != ('ret', run.R.m):
        buf.add('iteration', 'IndexedSet.__iter__', run.flags, wit, 'seed state iterates as %s' % short(state), None)
        return False
    check_readers(run, level_for(len(run.R.m), depth), found)
    if len(run.R.m) <= 100 or depth <= 1:
        check_pure(run, found, light=depth >= 2)
    for clause, site, feats, expr, got, want in found:
        buf.add(clause, site, feats, wit, '%s -> %s, required %s' % (expr, short(got), short(want)),
                run.snippet(expr, want))
        if clause not in ('slice', 'set_algebra', 'set_predicates'):
            ok = False
    return ok


def short(x, n=160):
    r = repr(x)
    return r if len(r) <= n else r[:n] + '...'


def replay(seed, hist_idx):
    "hist_idx: indexes into mutators(model) at each step (operands are rebuilt, so nothing is shared)"
    run = Run(seed)
    for i, red in hist_idx:
        run.apply(mutators(run.R.m, red)[i])
    return run


def explore(H, buf, seed, depth, modes, frac, part):
    run, t0 = Run(seed), time.time()
    H.ev(key=(seed[0],), nontrivial=bool(seed[2]), part=part, sample=dict(seed=seed[0], history=[]))
    if not judge(H, buf, run, 0):
        return
    stack = [()]
    while stack:
        hist = stack.pop()
        base = replay(seed, hist)
        red = modes[len(hist)]
        nops = len(mutators(base.R.m, red))
        for i in range(nops):
            run = replay(seed, hist)
            m_before = list(run.R.m)
            res = run.apply(mutators(m_before, red)[i])
            op = run.last_op
            h2 = hist + ((i, red),)
            H.ev(key=(seed[0], h2), nontrivial=bool(run.flags) or NONTAIL in base.flags, part=part,
                 sample=dict(seed=seed[0], history=run.lines[-len(h2):]))
            if judge(H, buf, run, len(h2), op, res, m_before) and len(h2) < depth:
                stack.append(h2)
        if H.out_of_time(frac):
            H.note_truncated('%s: seed %r stopped by the time budget' % (part, seed[0]))
            break
    H.parts['seconds: ' + seed[0]] = round(time.time() - t0, 1)


def random_histories(H, buf, seed, runs, length, rseed):
    import random
    rnd = random.Random(rseed)
    for r in range(runs):
        run = Run(seed)
        for step in range(length):
            m_before = list(run.R.m)
            ops = mutators(m_before)
            ops = [o for o in ops if o[0] != 'clear' and o[1] != (SELF,)] if rnd.random() < 0.9 else ops
            res = run.apply(rnd.choice(ops))
            op = run.last_op
            H.ev(key=('rnd', seed[0], rseed, r, step), nontrivial=bool(run.flags), part='random')
            if not judge(H, buf, run, 2, op, res, m_before):
                break
        if H.out_of_time(0.72):
            H.note_truncated('random histories stopped by the time budget')
            return


def run():
    H = Harness('C11',
                rule='a case is one (seed state, operation history); after its last operation the operation contract, '
                     'then every reader (iteration, len, membership, count, reversed, every index, index(x), slices, '
                     '~50 non-mutating set-algebra calls, ~25 from the second step on) is compared with the list/set model; non-trivial = a non-tail '
                     'deletion happened since the last clear (tombstones possible)',
                bounds=dict(
                    quick='9 directed seeds (0/3/9/17/16/26/40 items with dead runs, 2 x 3200 items with 384 runs; thorough 3); '
                          'all histories <= 2 over ~45 operation instances (positions first/second/middle/last-but-one/'
                          'last, operands of all 5 types, 0/1/2 operands, repeated items, self) for seeds <= 40 items, '
                          '<= 1 (+ second step over add/remove/discard/pop only) for 3200-item seeds; all indexes; slices: all bounds '
                          '-n..n x steps 1,2,3 (n <= 9, depth <= 1), reduced bound sets deeper / larger',
                    thorough='as quick with histories <= 3 (third step over the reduced alphabet), <= 2 full for the '
                             '3200-item seeds, plus seeded random histories of 40 steps from every seed'))
    buf = FailBuf()
    small, big = [s for s in SEEDS if s[1] <= 100], [s for s in SEEDS if s[1] > 100]
    if not H.thorough:
        big = big[:2]       # the third one is reached from the first by one more non-adjacent removal
    for k, seed in enumerate(big):
        explore(H, buf, seed, 2, (0, 1) if H.thorough else (0, 2), (0.2 if H.thorough else 0.35) * (k + 1) / len(big), 'big_seeds')
    for k, seed in enumerate(small):
        explore(H, buf, seed, 3 if H.thorough else 2, (0, 0, 1), (0.2 if H.thorough else 0.35) + 0.45 * (k + 1) / len(small),
                'small_seeds')
    if H.thorough:
        for k, seed in enumerate(SEEDS):
            random_histories(H, buf, seed, 15 if seed[1] > 100 else 150, 40, H.seed * 1000 + k)
    buf.flush(H)
    H.finish()


main_wrapper(run)
