"""C13 bounded stand-in: executable contract of funcutils.wraps / update_wrapper on a family of signatures.

For every function f of the family (generated here from a parameter spec, independently of boltons) and a
recording wrapper w:   g = wraps(f)(w)   /   g = update_wrapper(w, f)
  signature_equal      inspect.signature(g, follow_wrapped=False) == inspect.signature(f)
  metadata_equal       g.__name__/__doc__/__module__ equal f's, g.__wrapped__ is f
  accepts_same_calls   for every call shape: g raises TypeError iff f does (oracle: the interpreter calling f)
  forwards_bound_args  for an accepted call, w receives a call that f binds to the same arguments incl. defaults
                       (f returns its locals(); w forwards to f; g's result must equal f's own result)
  async_preserved      async f -> g(...) returns an awaitable that yields the result
  injected_removes_exactly_param   update_wrapper(w, f, injected=[n]): own signature == f's minus n
  expected_adds_exactly_param      update_wrapper(w, f, expected=n | [(n, d)]): own parameters minus the new one
                       == f's parameters (order, kind, default, annotation), the new one carries exactly the given
                       default (or none); its position/kind is left open by the statement -> any is accepted
  variant_calls        calls of an injected/expected variant are accepted iff its (validated) own signature binds
                       them (oracle: inspect.Signature.bind) and w receives an equally-binding call
"""
import inspect
import itertools
import os
import sys
import warnings

sys.path.insert(0, os.path.dirname(os.path.dirname(os.path.abspath(__file__))))
from bounded.harness import Harness, main_wrapper  # noqa: E402

from boltons import funcutils  # noqa: E402

P = inspect.Parameter
warnings.simplefilter('ignore', RuntimeWarning)  # un-awaited coroutines of a broken async wrapper
NPOS = [3]
DEFAULT_OF = [lambda n: 'd' + n]      # default value of parameter n; a second pass gives every parameter the SAME default
HDR = 'import inspect\nfrom boltons.funcutils import wraps, update_wrapper\n'
ANN = {'a': 'int', 'b': 'str', 'e': 'list', 'k': 'float', 'm': 'bytes', 'args': 'int', 'kw': 'str'}


def specs(thorough):
    """all parameter specs of the family: (pos, varargs, kwonly, varkw, ann, is_async, doc);
    pos/kwonly = tuple of (name, has_default)"""
    pos_opts = [(), (('a', 0),), (('a', 1),), (('a', 0), ('b', 0)), (('a', 0), ('b', 1)), (('a', 1), ('b', 1))]
    kwo_opts = [()] + [(('k', d),) for d in (0, 1)] + [(('k', d), ('m', e)) for d in (0, 1) for e in (0, 1)]
    anns = ('none', 'all', 'partial') if thorough else ('none', 'all')
    if thorough:
        pos_opts += [(('a', x), ('b', y), ('e', z)) for x, y, z in [(0, 0, 0), (0, 0, 1), (0, 1, 1), (1, 1, 1)]]
    for pos, va, kwo, vk, ann, asy in itertools.product(pos_opts, (0, 1), kwo_opts, (0, 1), anns, (0, 1)):
        yield (pos, va, kwo, vk, ann, asy, 1)


def source(spec, name='f'):
    pos, va, kwo, vk, ann, asy, doc = spec
    first = [True]

    def one(n, d, star=''):
        s = star + n
        if ann == 'all' or (ann == 'partial' and first[0] and not star):
            s += ': ' + ANN[n]
        if not star:
            first[0] = False
        return s + ('=%r' % DEFAULT_OF[0](n) if d else '')
    parts = [one(n, d) for n, d in pos]
    if va:
        parts.append(one('args', 0, '*'))
    elif kwo:
        parts.append('*')
    parts += [one(n, d) for n, d in kwo]
    if vk:
        parts.append(one('kw', 0, '**'))
    ret = ' -> dict' if ann == 'all' else ''
    return '%sdef %s(%s)%s:\n%s    return locals()\n' % ('async ' if asy else '', name, ', '.join(parts), ret,
                                                       '    "doc of f"\n' if doc else '')


def make(spec, name='f'):
    ns = {'__name__': 'c13_family'}
    exec(source(spec, name), ns)
    return ns[name]


def drive(x):
    """run an awaitable that never suspends"""
    c = x.__await__()
    try:
        next(c)
    except StopIteration as e:
        return e.value
    raise RuntimeError('awaitable suspended')


def outcome(fn, a, k, asy):
    """('ok', value) | ('TypeError', msg)"""
    try:
        r = fn(*a, **k)
        if asy:
            if not inspect.isawaitable(r):
                return ('notawaitable', repr(r))
            r = drive(r)
        return ('ok', r)
    except TypeError as e:
        return ('TypeError', str(e))


def shapes(names):
    names = list(names)
    for n in range(NPOS[0] + 1):
        a = tuple('p%d' % i for i in range(n))
        for r in range(len(names) + 1):
            for sub in itertools.combinations(names, r):
                for unk in (0, 1):
                    k = {x: 'v_' + x for x in sub}
                    if unk:
                        k['zz'] = 'v_zz'
                    yield a, k


def call_src(a, k):
    return ', '.join([repr(x) for x in a] + ['%s=%r' % kv for kv in k.items()])


def wrapper_for(target, rec, asy):
    if asy:
        async def w(*a, **k):
            rec.append((a, k))
            return await target(*a, **k)
    else:
        def w(*a, **k):
            rec.append((a, k))
            return target(*a, **k)
    return w


def check_meta(H, f, g, site, witness, snip):
    for attr in ('__name__', '__doc__', '__module__'):
        gv, fv = getattr(g, attr, '<missing>'), getattr(f, attr)
        wcl = 'function without a docstring' if (attr == '__doc__' and fv is None) else \
              'lambda' if f.__name__ == '<lambda>' else 'any function'
        H.check(gv == fv, 'metadata_equal', site, wcl + ' (' + attr + ')', witness,
                '%s: wrapper has %r, wrapped has %r' % (attr, gv, fv), snip)
    H.check(getattr(g, '__wrapped__', None) is f, 'metadata_equal', site, 'any function (__wrapped__)', witness,
            '__wrapped__ is not the wrapped function', snip)


def plain(H, spec, f, src, how):
    pos, va, kwo, vk, ann, asy, doc = spec
    site = 'wraps' if how == 'wraps' else 'update_wrapper'
    rec = []
    w = wrapper_for(f, rec, asy)
    build = (lambda: funcutils.wraps(f)(w)) if how == 'wraps' else (lambda: funcutils.update_wrapper(w, f))
    mk = 'g = wraps(f)(w)\n' if how == 'wraps' else 'g = update_wrapper(w, f)\n'
    pre = HDR + src + ('async ' if asy else '') + 'def w(*a, **k): return %sf(*a, **k)\n' % ('await ' if asy else '') + mk
    ok, g = H.guard(build, 'signature_equal', site, 'building the wrapper raises', src, pre)
    if not ok:
        return
    fs = inspect.signature(f)
    ok, gs = H.guard(lambda: inspect.signature(g, follow_wrapped=False), 'signature_equal', site,
                     'signature() of the wrapper raises', src, pre)
    H.ev(key=('sig', how, spec), nontrivial=bool(pos or kwo or va or vk), sample=dict(how=how, f=src.split(':\n')[0]))
    if ok:
        H.check(gs == fs, 'signature_equal', site, 'plain wraps', src, 'wrapper %s != wrapped %s' % (gs, fs),
                pre + 'assert inspect.signature(g, follow_wrapped=False) == inspect.signature(f), inspect.signature(g, follow_wrapped=False)\n')
    check_meta(H, f, g, site, src, pre + 'assert (g.__name__, g.__doc__, g.__module__) == (f.__name__, f.__doc__, f.__module__) and g.__wrapped__ is f\n')
    if asy:
        H.check(inspect.iscoroutinefunction(g), 'async_preserved', site, 'async function', src,
                'wrapper of a coroutine function is not a coroutine function', pre + 'assert inspect.iscoroutinefunction(g)\n')
    names = [n for n, _ in pos + kwo]
    for a, k in shapes(names):
        exp = outcome(f, a, k, asy)
        del rec[:]
        got = outcome(g, a, k, asy)
        H.ev(key=('call', how, spec, a, tuple(k)), nontrivial=True, part='plain_calls')
        cs = call_src(a, k)
        run = ('import asyncio\nrun = lambda c: asyncio.run(c)\n' if asy else 'run = lambda c: c\n')
        if exp[0] == 'TypeError':
            H.check(got[0] == 'TypeError', 'accepts_same_calls', site, 'call the wrapped function rejects', (src, cs),
                    'f(%s) raises TypeError, wrapper returned %r' % (cs, got),
                    pre + run + 'try:\n    run(g(%s))\nexcept TypeError:\n    pass\nelse:\n    raise AssertionError("accepted")\n' % cs)
            continue
        snip = pre + run + 'assert run(g(%s)) == run(f(%s))\n' % (cs, cs)
        if got[0] == 'TypeError' and not rec:
            H.fail('accepts_same_calls', site, 'call the wrapped function accepts', (src, cs),
                   'f(%s) is accepted, wrapper raises TypeError: %s' % (cs, got[1]), snip)
        elif got[0] == 'notawaitable':
            H.fail('async_preserved', site, 'async function', (src, cs), 'g(...) returned %s' % got[1], snip)
        elif got != exp:
            H.fail('forwards_bound_args', site, 'plain wraps', (src, cs),
                   'wrapped function saw %r (forwarded as %r), a direct call binds %r' % (got[1], rec, exp[1]), snip)


def bound(sig, a, k):
    try:
        b = sig.bind(*a, **k)
    except TypeError:
        return None
    b.apply_defaults()
    return dict(b.arguments)


def variant(H, spec, f, src, kind, name, dflt):
    """kind 'inj': injected=[name]; kind 'exp': expected=name (dflt is None) or [(name, dflt)]"""
    pos, va, kwo, vk, ann, asy, doc = spec
    rec = []
    if asy:
        async def w(*a, **k):
            rec.append((a, k))
            return 'token'
    else:
        def w(*a, **k):
            rec.append((a, k))
            return 'token'
    fs = inspect.signature(f)
    fparams = list(fs.parameters.values())
    has_posdef = any(d for _, d in pos)
    if kind == 'inj':
        site, clause = 'update_wrapper(injected=)', 'injected_removes_exactly_param'
        p = fs.parameters[name]
        wcl = 'injected %s parameter %s default' % ('keyword-only' if p.kind == P.KEYWORD_ONLY else 'positional-or-keyword',
                                                    'with' if p.default is not P.empty else 'without')
        kwargs, kwsrc = dict(injected=[name]), 'injected=[%r]' % name
    else:
        site, clause = 'update_wrapper(expected=)', 'expected_adds_exactly_param'
        wcl = 'expected %s default, wrapped function %s defaulted positional parameters' % (
            'without' if dflt is None else 'with', 'has' if has_posdef else 'has no')
        kwargs = dict(expected=name if dflt is None else [(name, dflt)])
        kwsrc = 'expected=%r' % (kwargs['expected'],)
    pre = HDR + src + 'def w(*a, **k): return "token"\n' + 'g = update_wrapper(w, f, %s)\n' % kwsrc
    witness = (src, kwsrc)
    ok, g = H.guard(lambda: funcutils.update_wrapper(w, f, **kwargs), clause, site, wcl + '; building raises', witness, pre)
    H.ev(key=('var', spec, kind, name, dflt), nontrivial=True, part='variants', sample=dict(f=src.split(':\n')[0], kw=kwsrc))
    if not ok:
        return
    ok, gs = H.guard(lambda: inspect.signature(g, follow_wrapped=False), clause, site, wcl + '; signature() raises', witness, pre)
    if not ok:
        return
    gparams = list(gs.parameters.values())
    if kind == 'inj':
        want = [q for q in fparams if q.name != name]
        good = gparams == want and gs.return_annotation == fs.return_annotation
        detail = 'own signature %s, expected %s' % (gs, fs.replace(parameters=want))
        snip = pre + 's = inspect.signature(g, follow_wrapped=False); fs = inspect.signature(f)\n' \
            'assert list(s.parameters.values()) == [p for p in fs.parameters.values() if p.name != %r], s\n' % name
    else:
        rest = [q for q in gparams if q.name != name]
        new = [q for q in gparams if q.name == name]
        good = (rest == fparams and len(new) == 1 and new[0].kind in (P.POSITIONAL_OR_KEYWORD, P.KEYWORD_ONLY)
                and (new[0].default is P.empty if dflt is None else new[0].default == dflt)
                and gs.return_annotation == fs.return_annotation)
        detail = 'own signature %s; wrapped %s plus %r%s' % (gs, fs, name, '' if dflt is None else '=%r' % dflt)
        snip = pre + 's = inspect.signature(g, follow_wrapped=False); fs = inspect.signature(f)\n' \
            'assert [p for p in s.parameters.values() if p.name != %r] == list(fs.parameters.values()), s\n' \
            'assert s.parameters[%r].default %s, s\n' % (name, name, 'is inspect.Parameter.empty' if dflt is None else '== %r' % dflt)
    if not H.check(good, clause, site, wcl, witness, detail, snip):
        return
    check_meta(H, f, g, site, witness, None)
    names = [q.name for q in gparams if q.kind in (P.POSITIONAL_OR_KEYWORD, P.KEYWORD_ONLY)]
    for a, k in shapes(names):
        exp = bound(gs, a, k)
        del rec[:]
        got = outcome(g, a, k, asy)
        H.ev(key=('vcall', spec, kind, name, dflt, a, tuple(k)), nontrivial=True, part='variant_calls')
        cs = call_src(a, k)
        if exp is None:
            H.check(got[0] == 'TypeError', 'variant_calls', site, 'call the own signature rejects', (witness, cs),
                    'signature %s does not bind (%s) but the call returned %r' % (gs, cs, got))
        elif got[0] != 'ok' or not rec:
            H.fail('variant_calls', site, 'call the own signature accepts', (witness, cs),
                   'signature %s binds (%s) but the call gave %r' % (gs, cs, got))
        else:
            seen = bound(gs, *rec[0])
            H.check(seen == exp and got[1] == 'token', 'variant_calls', site, 'forwarded arguments', (witness, cs),
                    'wrapper received %r binding to %r, the call binds to %r' % (rec[0], seen, exp))


def variant_multi(H, spec, f, src, names):
    """injected = several names at once (each a parameter of f, or a name absent from the signature that **kwargs
    absorbs): the own signature is f's minus exactly those parameters, whatever the order of the names"""
    fs = inspect.signature(f)
    has_varkw = any(q.kind == P.VAR_KEYWORD for q in fs.parameters.values())
    absent = [n for n in names if n not in fs.parameters]
    site, clause = 'update_wrapper(injected=)', 'injected_removes_exactly_param'
    wcl = 'several injected names%s' % (', one absorbed by **kwargs' if absent else '')
    kwsrc = 'injected=%r' % (list(names),)
    pre = HDR + src + 'def w(*a, **k): return "token"\n' + 'g = update_wrapper(w, f, %s)\n' % kwsrc

    def w(*a, **k):
        return 'token'
    H.ev(key=('multi', spec, tuple(names)), nontrivial=True, part='variants_multi', sample=dict(f=src.split(':\n')[0], kw=kwsrc))
    try:
        g = funcutils.update_wrapper(w, f, injected=list(names))
    except Exception as e:  # noqa
        if absent and not has_varkw:
            return          # a name that nothing can absorb may be refused
        H.fail(clause, site, wcl + '; building raises', (src, kwsrc), repr(e), pre)
        return
    ok, gs = H.guard(lambda: inspect.signature(g, follow_wrapped=False), clause, site, wcl + '; signature() raises', (src, kwsrc), pre)
    if not ok:
        return
    want = [q for q in fs.parameters.values() if q.name not in names]
    H.check(list(gs.parameters.values()) == want, clause, site, wcl, (src, kwsrc),
            'own signature %s, expected %s' % (gs, fs.replace(parameters=want)),
            pre + 's = inspect.signature(g, follow_wrapped=False); fs = inspect.signature(f)\n'
            'assert list(s.parameters.values()) == [p for p in fs.parameters.values() if p.name not in %r], s\n' % (list(names),))


def run():
    H = Harness('C13',
                rule='one evaluation = one (signature, wraps|update_wrapper) signature/metadata comparison, or one '
                     '(signature, variant, call shape) call comparison; non-trivial = the signature has at least one '
                     'parameter (every call evaluation is non-trivial: it is decided by binding)',
                bounds=dict(quick='672 signatures: <=2 positional-or-keyword (defaults where legal) x *args x <=2 keyword-only '
                                  '(each with/without default) x **kw x annotations {none, all+return} x sync/async; '
                                  'call shapes: 0..3 positionals x every subset of the parameter names x unknown keyword yes/no; '
                                  'every single injected name; expected in {"c", [("c","dc")]}; docstring absent, lambdas: 8 extra',
                            thorough='same plus annotations "partial", a third positional-or-keyword parameter (defaults where legal) and 0..4 '
                                     'positionals per call (1680 signatures)'))
    NPOS[0] = 4 if H.thorough else 3
    n_sig = 0
    for spec in specs(H.thorough):
        if H.out_of_time(0.9):
            H.note_truncated('signature enumeration stopped by time budget after %d signatures' % n_sig)
            break
        n_sig += 1
        src = source(spec)
        f = make(spec)
        plain(H, spec, f, src, 'wraps' if n_sig % 2 else 'update_wrapper')
        for n, _ in spec[0] + spec[2]:
            variant(H, spec, f, src, 'inj', n, None)
        inj_names = [q.name for q in inspect.signature(f).parameters.values()
                     if q.kind in (P.POSITIONAL_OR_KEYWORD, P.KEYWORD_ONLY)]
        for pair in itertools.permutations(inj_names + ['zz_absent'], 2):
            variant_multi(H, spec, f, src, pair)
        variant(H, spec, f, src, 'exp', 'c', None)
        variant(H, spec, f, src, 'exp', 'c', 'dc')
    # second pass: every defaulted parameter carries the same default value (defaults can then not be told apart by value,
    # so any realignment that goes by value instead of by parameter shows)
    DEFAULT_OF[0] = lambda n: 'same'
    for spec in specs(H.thorough):
        pos, va, kwo, vk, ann, asy, doc = spec
        if asy or ann != 'none' or sum(d for _, d in pos + kwo) < 2:
            continue
        src = source(spec)
        f = make(spec)
        plain(H, spec[:6] + (2,), f, src, 'wraps')
        for n, _ in pos + kwo:
            variant(H, spec[:6] + (2,), f, src, 'inj', n, None)
        variant(H, spec[:6] + (2,), f, src, 'exp', 'c', None)
        variant(H, spec[:6] + (2,), f, src, 'exp', 'c', 'same')
    DEFAULT_OF[0] = lambda n: 'd' + n
    # directed: equal defaults that are NOT adjacent (a different one in between), positional and keyword-only
    for params, pos, kwo in [("a='x', b='y', e='x'", (('a', 1), ('b', 1), ('e', 1)), ()),
                             ("a='x', b='x', e='y'", (('a', 1), ('b', 1), ('e', 1)), ()),
                             ("a, b='x', e='y', k='x'", (('a', 0), ('b', 1), ('e', 1), ('k', 1)), ()),
                             ("a='x', b='y', *, k='x', m='y'", (('a', 1), ('b', 1)), (('k', 1), ('m', 1)))]:
        spec = (pos, 0, kwo, 0, 'none', 0, 3)
        src = 'def f(%s):\n    "doc of f"\n    return locals()\n' % params
        ns = {'__name__': 'c13_family'}
        exec(src, ns)
        f = ns['f']
        plain(H, spec, f, src, 'wraps')
        for n, _ in pos + kwo:
            variant(H, spec, f, src, 'inj', n, None)
        variant(H, spec, f, src, 'exp', 'c', 'x')
    # functions without a docstring and lambdas: metadata + signature + calls on a few signatures
    for pos, kwo in [((), ()), ((('a', 0), ('b', 1)), ()), ((('a', 0),), (('k', 1),)), ((('a', 1),), (('k', 0), ('m', 1)))]:
        spec = (pos, 1, kwo, 1, 'none', 0, 0)
        plain(H, spec, make(spec), source(spec), 'wraps')
    lam = [('lambda: locals()', ()), ('lambda a, b="db": locals()', ('a', 'b')),
           ('lambda a, *args, k="dk": locals()', ('a', 'k')), ('lambda *, k, **kw: locals()', ('k',))]
    for text, names in lam:
        ns = {'__name__': 'c13_family'}
        exec('f = ' + text, ns)
        plain_lambda(H, text, ns['f'], names)
    # wrapping a function that is itself the product of wraps: __wrapped__ of the outer wrapper is the function it was
    # given (one level), not the innermost one, and signature/metadata are still those of that function
    def base(a, b=2, *, k=None):
        "base doc"
        return ('base', a, b, k)
    for how in ('wraps', 'update_wrapper'):
        def mid_impl(*a, **kw):
            return base(*a, **kw)
        mid = funcutils.wraps(base)(mid_impl)
        def outer_impl(*a, **kw):
            return mid(*a, **kw)
        ok, outer = H.guard((lambda: funcutils.wraps(mid)(outer_impl)) if how == 'wraps' else (lambda: funcutils.update_wrapper(outer_impl, mid)),
                            'metadata_equal', 'funcutils.' + how, 'wrapping a function produced by wraps; building raises', 'two levels of wraps')
        H.ev(key=('double-wrap', how), nontrivial=True, part='double_wrap', sample='two levels of ' + how)
        if not ok:
            continue
        snip = HDR + ('def base(a, b=2, *, k=None): return a\nmid = wraps(base)(lambda *a, **kw: base(*a, **kw))\n'
                      'outer = wraps(mid)(lambda *a, **kw: mid(*a, **kw))\nassert outer.__wrapped__ is mid and mid.__wrapped__ is base\n')
        H.check(getattr(outer, '__wrapped__', None) is mid, 'metadata_equal', 'funcutils.' + how,
                'wrapping a function produced by wraps (__wrapped__ must be the function given, one level)', 'two levels of wraps',
                '__wrapped__ is %r' % (getattr(outer, '__wrapped__', None),), snip)
        H.check(getattr(mid, '__wrapped__', None) is base, 'metadata_equal', 'funcutils.wraps', 'any function (__wrapped__)',
                'two levels of wraps', 'inner __wrapped__ is %r' % (getattr(mid, '__wrapped__', None),), snip)
        H.check(str(inspect.signature(outer, follow_wrapped=False)) == str(inspect.signature(base)) and outer.__name__ == 'base'
                and outer.__doc__ == 'base doc' and outer(1, k=3) == ('base', 1, 2, 3), 'signature_equal', 'funcutils.' + how,
                'wrapping a function produced by wraps', 'two levels of wraps',
                'signature %s name %r' % (inspect.signature(outer, follow_wrapped=False), outer.__name__), snip)
        # hide_wrapped: no __wrapped__ at all on the outer wrapper, also when the wrapped function carries one
        ok2, hidden = H.guard(lambda: funcutils.update_wrapper(lambda *a, **kw: mid(*a, **kw), mid, hide_wrapped=True), 'metadata_equal',
                              'funcutils.update_wrapper', 'hide_wrapped on a function produced by wraps; building raises', 'two levels')
        if ok2:
            H.check(not hasattr(hidden, '__wrapped__'), 'metadata_equal', 'funcutils.update_wrapper',
                    'hide_wrapped=True on a function that itself has __wrapped__', 'two levels of wraps',
                    '__wrapped__ is still present: %r' % (getattr(hidden, '__wrapped__', None),))
    H.bounds['signatures_enumerated'] = n_sig
    H.finish()


def plain_lambda(H, text, f, names):
    src = 'f = ' + text + '\n'
    rec = []
    w = wrapper_for(f, rec, 0)
    pre = HDR + src + 'def w(*a, **k): return f(*a, **k)\ng = wraps(f)(w)\n'
    ok, g = H.guard(lambda: funcutils.wraps(f)(w), 'signature_equal', 'wraps', 'lambda; building the wrapper raises', src, pre)
    H.ev(key=('lambda', text), sample=dict(f=text))
    if not ok:
        return
    gs, fs = inspect.signature(g, follow_wrapped=False), inspect.signature(f)
    H.check(gs == fs, 'signature_equal', 'wraps', 'lambda', src, 'wrapper %s != wrapped %s' % (gs, fs),
            pre + 'assert inspect.signature(g, follow_wrapped=False) == inspect.signature(f)\n')
    check_meta(H, f, g, 'wraps', src, pre + 'assert (g.__name__, g.__doc__, g.__module__) == (f.__name__, f.__doc__, f.__module__)\n')
    for a, k in shapes(names):
        exp, got = outcome(f, a, k, 0), outcome(g, a, k, 0)
        H.ev(key=('lcall', text, a, tuple(k)), part='plain_calls')
        H.check(exp[0] == got[0] and (exp[0] == 'TypeError' or exp == got), 'accepts_same_calls', 'wraps', 'lambda',
                (src, call_src(a, k)), 'f: %r, wrapper: %r' % (exp, got))


main_wrapper(run)
