"""C07 bounded stand-in: URL.navigate against a literal transcription of RFC 3986 section 5.2.

Contract (from the property statement), evaluated on the real boltons.urlutils.URL:
  rfc_5_2_target            base.navigate(ref).to_text() == resolve(base, ref) of refmodels/rfc3986.py,
                            an empty path under an authority being the same as '/'
  absolute_ref_replaces_base  a reference with its own scheme and host: the result is that reference
  no_dot_segments           result.path_parts has no '.'/'..', rendered path is rooted (never above the root)
  base_unmodified           every observable of the base object is the same before and after
  chained_equals_stepwise   base.navigate(r1).navigate(r2) == RFC resolve(resolve(base, r1), r2)
                            == URL(base.navigate(r1).to_text()).navigate(r2)
  normalize_idempotent      u.normalize(); u.normalize() changes nothing the second time
The oracle is validated first (RFC 5.4.1/5.4.2 tables, text form == segment form); if that fails the
check stops with CHECKER-ERROR (exit 3), never with a violation.
"""
import itertools
import os
import sys

sys.path.insert(0, os.path.dirname(os.path.dirname(os.path.abspath(__file__))))
from bounded.harness import Harness, main_wrapper  # noqa: E402
from refmodels import rfc3986 as R  # noqa: E402

from boltons.urlutils import URL  # noqa: E402

HDR = 'from boltons.urlutils import URL\n'
SEGS = ('', '.', '..', 'g', 'h')
EMPTY_BASE = 'base with authority and empty path, relative-path reference'


def canon(text, loose=False):
    """equivalence of the statement: empty path under an authority == '/'.
    loose: additionally a defined-but-empty query/fragment == absent (boltons cannot render them)"""
    s, a, p, q, f = R.parse(text)
    if a is not None and p == '':
        p = '/'
    if loose:
        q, f = q or None, f or None
    return R.recompose((s, a, p, q, f))


def variants(text, loose=False):
    s, a, p, q, f = R.parse(text)
    if loose:
        q, f = q or None, f or None
    out = {R.recompose((s, a, p, q, f))}
    if a is not None and p in ('', '/'):
        out |= {R.recompose((s, a, '', q, f)), R.recompose((s, a, '/', q, f))}
    return sorted(out)


def ref_paths(n):
    seen = set()
    for k in range(0, n + 1):
        for segs in itertools.product(SEGS, repeat=k):
            rel = '/'.join(segs)
            for t in ((rel, '/' + rel) if k else ('', '/')):
                if not t.startswith('//') and t not in seen:
                    seen.add(t)
                    yield t


def snap(u):
    try:
        qp = list(u.query_params.items(multi=True))
    except Exception as e:  # noqa
        qp = repr(e)
    return (u.to_text(), u.to_text(full_quote=True), tuple(u.path_parts), qp, u.fragment, u.scheme,
            u.host, u.port, u.username, u.password)


def nav_snip(base, refs, want, loose=False):
    chain = ''.join('.navigate(%r)' % r for r in refs)
    return HDR + 'got = URL(%r)%s.to_text()\nassert got in %r, got\n' % (base, chain, variants(want, loose))


IPV6 = 'base with an IPv6 literal host: the result loses the brackets'


def classify(base, ref, got=None):
    bp, rp, rq = R.parse(base)[2], R.parse(ref)[2], R.parse(ref)[3]
    if got is not None and '[' in (R.parse(base)[1] or '') and '[' not in (R.parse(got)[1] or ''):
        return IPV6
    if bp == '' and rp and not rp.startswith('/'):
        return EMPTY_BASE
    if rq == '':
        return 'reference with a defined but empty query, base with a query'
    kind = 'empty-path' if rp == '' else ('absolute-path' if rp.startswith('/') else 'relative-path')
    return '%s reference, base path %s' % (kind, 'empty' if bp == '' else 'non-empty')


def check_nav(H, base, ref, loose=False):
    """one contract evaluation; returns the result text when it matched the RFC target, else None"""
    site = 'URL.navigate'
    want = R.resolve(base, ref)
    wit = dict(base=base, ref=ref)
    ok, b = H.guard(lambda: URL(base), 'rfc_5_2_target', 'URL', 'base does not parse', wit)
    if not ok:
        return None
    ok, before = H.guard(lambda: snap(b), 'rfc_5_2_target', 'URL', 'base does not render', wit)
    if not ok:
        return None
    ok, r = H.guard(lambda: b.navigate(ref), 'rfc_5_2_target', site, 'navigate raises: ' + classify(base, ref), wit)
    if not ok:
        return None
    ok, got = H.guard(lambda: r.to_text(), 'rfc_5_2_target', site, 'result does not render', wit)
    if not ok:
        return None
    ok, after = H.guard(lambda: snap(b), 'base_unmodified', site, 'base does not render after navigate', wit)
    if ok and after != before:
        H.fail('base_unmodified', site, classify(base, ref), wit, 'before %r after %r' % (before, after),
               HDR + 'b = URL(%r); t = b.to_text(); b.navigate(%r)\nassert b.to_text() == t, b.to_text()\n' % (base, ref))
    if r is b:
        H.fail('base_unmodified', site, 'navigate returns the base object itself', wit, '')
    if canon(got, loose) != canon(want, loose):
        H.fail('rfc_5_2_target', site, classify(base, ref, got), wit, 'navigate -> %r, RFC 3986 5.2 -> %r' % (got, want),
               nav_snip(base, [ref], want, loose))
        return None
    parts = list(r.path_parts)
    path = R.parse(got)[2]
    if '.' in parts or '..' in parts or (path and not path.startswith('/')):
        H.fail('no_dot_segments', site, classify(base, ref), wit, 'result path_parts %r, text %r' % (parts, got))
    return got


def run():
    H = Harness('C07',
                rule='one case = (base URL text, reference text); non-trivial = the reference has a dot segment, an '
                     'empty segment or an empty path (anything but a plain dot-free path), or the case is a chain / '
                     'absolute reference / normalize case',
                bounds=dict(quick='8 base shapes x all reference paths <= 4 segments over {"", ".", "..", g, h} (relative '
                                  'and absolute-path, no "//" prefix) x query {absent, y} x fragment {absent, s}; chains of '
                                  'two references <= 2 segments; 12 absolute references; normalize on all paths <= 4',
                            thorough='12 base shapes x reference paths <= 6 segments; chains: first reference <= 3 segments, second <= 2'))
    info = R.self_check(6)          # AssertionError here => CHECKER-ERROR, not a violation
    H.parts['oracle_rfc_5_4_examples'] = info['examples']
    H.parts['oracle_fold_equals_text_paths'] = info['fold_paths']

    bases = ['http://a/b/c/d;p?q', 'http://a', 'http://a/', 'http://a/b/c/', 'http://a/b', 'http://a?q',
             'http://u:pw@a:8080/b/c?q=1#f', 'http://[::1]/b/c', 'http://a/b?tag=a&page=2&tag=b']
    if H.thorough:
        bases += ['http://a/b//c', 'https://a/b/c/d/e/f', 'ftp://a/b?x=1&x=2', 'x://a/b']
    n = 6 if H.thorough else 4
    paths = list(ref_paths(n))
    H.parts['reference_paths'] = len(paths)

    # 1. relative references (no authority): the RFC target, base unmodified, dot-free result
    for base in bases:
        for p in paths:
            dotty = p == '' or any(s in ('', '.', '..') for s in p.split('/')[1 if p.startswith('/') else 0:])
            for q in ('', '?y'):
                for f in ('', '#s'):
                    ref = p + q + f
                    H.ev(key=(base, ref), nontrivial=dotty, sample=dict(base=base, ref=ref), part='relative_refs')
                    check_nav(H, base, ref)
        if H.out_of_time(0.7):
            H.note_truncated('relative references: stopped by time budget at base %r' % base)
            break

    # 1b. defined-but-empty query / fragment in the reference ('?' and '#' are query-only / fragment-only refs)
    for base in bases:
        for ref in ('?', '#', '?#', 'g?', 'g#', '/g?#', '?#s', '?y#'):
            H.ev(key=(base, ref), sample=dict(base=base, ref=ref), part='empty_query_fragment_refs')
            check_nav(H, base, ref, loose=True)
        # a '?' or '/' inside the fragment belongs to the fragment (the reference has no query / path of its own)
        for ref in ('#sec?2', '#a/b?c', 'g#x?y', '#?', '#/'):
            H.ev(key=(base, ref), sample=dict(base=base, ref=ref), part='fragment_with_delimiters')
            check_nav(H, base, ref)

    # 2. references with their own scheme and host replace the base entirely
    absolute = ['https://x', 'https://x/', 'https://x/p/q?k=v#f', 'http://a/zz', 'ftp://u@x:2121/p', 'https://x?k',
                'https://x/p/', 'https://x//p', 'https://x/p/../q', 'https://x/./p/', 'https://x/../p', 'https://x/p/..']
    for base in bases:
        for ref in absolute:
            for as_url in (False, True):
                wit = dict(base=base, ref=ref, passed_as='URL object' if as_url else 'text')
                H.ev(key=(base, ref, as_url), sample=wit, part='absolute_refs')
                want = R.resolve(base, ref)
                dots = any(s in ('.', '..') for s in R.parse(ref)[2].split('/'))
                try:
                    b = URL(base)
                    before = snap(b)
                    d = URL(ref) if as_url else ref
                    dsnap = snap(d) if as_url else None
                    r = b.navigate(d)
                    got = r.to_text()
                except Exception as e:  # noqa
                    H.fail('absolute_ref_replaces_base', 'URL.navigate', 'navigate raises', wit, repr(e))
                    continue
                if snap(b) != before or r is b:
                    H.fail('base_unmodified', 'URL.navigate', 'reference with scheme and host', wit, repr(snap(b)))
                if as_url and (snap(d) != dsnap or r is d):
                    H.fail('base_unmodified', 'URL.navigate', 'reference passed as a URL object is modified or returned', wit,
                           'dest before %r after %r, same object: %r' % (dsnap, snap(d), r is d))
                if canon(got) != canon(want):
                    if dots and canon(got) == canon(ref):
                        H.fail('no_dot_segments', 'URL.navigate', 'reference with scheme and host whose path has dot segments',
                               wit, 'navigate -> %r, RFC 3986 5.2 -> %r' % (got, want), nav_snip(base, [ref], want))
                    else:
                        H.fail('absolute_ref_replaces_base', 'URL.navigate', 'reference with scheme and host', wit,
                               'navigate -> %r, expected %r' % (got, want), nav_snip(base, [ref], want))

    # 3. chained navigation == step by step (RFC on text, and boltons on the re-parsed intermediate)
    short = [p + q for p in ref_paths(2) for q in ('', '?y', '#s')]
    first = [p + q for p in ref_paths(3) for q in ('', '?y', '#s')] if H.thorough else short
    for base in bases:
        for r1 in first:
            mid_want = R.resolve(base, r1)
            try:
                b = URL(base)
                mid = b.navigate(r1)
                mid_text = mid.to_text()
            except Exception:  # noqa  (reported by part 1)
                continue
            if canon(mid_text) != canon(mid_want):
                continue                           # the first step is already reported by part 1
            for r2 in short:
                wit = dict(base=base, refs=[r1, r2])
                H.ev(key=(base, r1, r2), sample=wit, part='chains')
                want = R.resolve(mid_want, r2)
                try:
                    got = mid.navigate(r2).to_text()
                    got_reparsed = URL(mid_text).navigate(r2).to_text()
                except Exception as e:  # noqa
                    H.fail('chained_equals_stepwise', 'URL.navigate', 'second navigate raises', wit, repr(e))
                    continue
                cls = classify(base, r1)
                if cls != EMPTY_BASE:
                    cls = classify(mid_want, r2, got)
                if canon(got) != canon(want):
                    same_as_single = canon(got_reparsed) != canon(want)
                    H.fail('rfc_5_2_target' if (same_as_single or cls == EMPTY_BASE) else 'chained_equals_stepwise',
                           'URL.navigate', cls, wit,
                           'chained -> %r, RFC stepwise -> %r, boltons on re-parsed intermediate -> %r' % (got, want, got_reparsed),
                           nav_snip(base, [r1, r2], want))
        if H.out_of_time(0.85):
            H.note_truncated('chains: stopped by time budget at base %r' % base)
            break

    # 4. normalize() is idempotent (absolute URLs and relative references; also after navigate)
    for prefix in ('http://a', 'HTTP://A.Example', ''):
        for p in paths:
            if p == '' or (prefix and not p.startswith('/')):
                continue
            for tail in ('', '?q#f'):
                text = prefix + p + tail
                for with_case in (True, False):
                    H.ev(key=('norm', text, with_case), sample=dict(url=text, with_case=with_case), part='normalize')
                    try:
                        u = URL(text)
                        u.normalize(with_case=with_case)
                        s1 = snap(u)
                        u.normalize(with_case=with_case)
                        s2 = snap(u)
                    except Exception as e:  # noqa
                        H.fail('normalize_idempotent', 'URL.normalize', 'normalize raises', text, repr(e))
                        continue
                    if s1 != s2:
                        H.fail('normalize_idempotent', 'URL.normalize', 'absolute URL' if prefix else 'relative reference',
                               text, 'after one call %r, after two %r' % (s1[0], s2[0]),
                               HDR + 'u = URL(%r); u.normalize(); t = u.to_text(); u.normalize()\nassert u.to_text() == t, (t, u.to_text())\n' % text)
                    if prefix and ('.' in s1[2] or '..' in s1[2] or s1[2][:1] != ('',)):
                        H.fail('no_dot_segments', 'URL.normalize', 'absolute URL', text, 'path_parts %r' % (s1[2],))
        if H.out_of_time(0.95):
            H.note_truncated('normalize: stopped by time budget')
            break
    H.finish()


main_wrapper(run)
