"""C12 bounded stand-in: BufferedSocket / NetstringSocket over a scripted socket object.

Contract (from the property statement), evaluated on the real classes:
  every receive call (recv_until / recv_size / peek / recv_close), retried after Timeout, returns the value or
    raises the ConnectionClosed / MessageTooLong that the *same call sequence* gives when the whole stream
    arrives in one chunk (clause same_as_whole_stream), which is also what the reference model
    refmodels/scripted_socket.model computes from the remaining stream alone (result_as_documented);
  recv(n) returns a non-empty prefix of the remaining stream of length <= n, b'' only at end (recv_prefix);
  after EVERY attempt - return, Timeout, ConnectionClosed, MessageTooLong - consumed ++ getrecvbuffer() ++
    not-yet-delivered == stream (conservation_after_return / _timeout / _error); a Timeout is raised only when
    the socket timed out (spurious_timeout);
  send/sendall/buffer/flush: wire ++ getsendbuffer() == everything accepted so far, after every call, and
    nothing is left buffered when send/sendall/flush return normally (send_*);
  write_ns produces the netstring encoding on the wire, read_ns (retried after Timeout) returns the payloads
    in order and keeps the conservation equation at message granularity (netstring_*).
Exploration: per-call contract from every state (buffered prefix X, scripted rest S) of every stream, which
covers call sequences of any length by induction on the state (rbuf, socket); plus raw (not deduplicated)
call sequences <= 3 compared with the whole-stream transcript, to validate that state abstraction.
"""
import inspect
import itertools
import os
import random
import sys

sys.path.insert(0, os.path.dirname(os.path.dirname(os.path.abspath(__file__))))
from bounded.harness import Harness, main_wrapper  # noqa: E402
from refmodels.scripted_socket import (ScriptedSocket, T, model, consumed, netstring,  # noqa: E402
                                       compositions, with_timeouts)
from boltons.socketutils import (BufferedSocket, NetstringSocket, Timeout,  # noqa: E402
                                 ConnectionClosed, MessageTooLong)

BIG = 1000.0      # timeout value in seconds: never reached by the clock, so only scripted timeouts fire
CTOR_MAX = 3      # constructor maxsize; a call with maxsize == CTOR_MAX omits the argument (default path)

SNIP_HDR = '''import socket
from boltons.socketutils import BufferedSocket, NetstringSocket, Timeout, ConnectionClosed, MessageTooLong
class S:  # scripted socket: chunks / 'T' = socket.timeout; b'' after the end; send accepts scripted counts
    def __init__(s, script=(), sends=()): s.q, s.cur, s.sends, s.wire = list(script), b'', list(sends), b''
    def settimeout(s, t): pass
    def gettimeout(s): return None
    def recv(s, n):
        while not s.cur and s.q:
            x = s.q.pop(0)
            if x == 'T': raise socket.timeout()
            s.cur = x
        out, s.cur = s.cur[:n], s.cur[n:]
        return out
    def send(s, d):
        k = s.sends.pop(0) if s.sends else len(d)
        if k == 'T': raise socket.timeout()
        k = max(1, min(k, len(d))) if d else 0
        s.wire += d[:k]
        return k
    def pending(s): return s.cur + b''.join(x for x in s.q if x != 'T')
'''


MODEL_SRC = inspect.getsource(model) + inspect.getsource(consumed)


def flat(script):
    return b''.join(x for x in script if not isinstance(x, str))


def mk(script, cfg):
    recvsize, timeout = cfg
    sock = ScriptedSocket(script)
    return BufferedSocket(sock, timeout=timeout, maxsize=CTOR_MAX, recvsize=recvsize), sock


def apply(bs, call):
    op = call[0]
    try:
        if op == 'recv_until':
            kw = {} if call[2] == CTOR_MAX else {'maxsize': call[2]}
            v = bs.recv_until(call[1], with_delimiter=call[3], **kw)
        elif op == 'recv_close':
            v = bs.recv_close(**({} if call[1] == CTOR_MAX else {'maxsize': call[1]}))
        else:
            v = getattr(bs, op)(call[1])
    except Timeout:
        return ('Timeout',)
    except ConnectionClosed:
        return ('ConnectionClosed',)
    except MessageTooLong:
        return ('MessageTooLong',)
    except Exception as e:  # noqa
        return ('raised', '%s: %s' % (type(e).__name__, str(e)[:80]))
    return ('ret', bytes(v)) if isinstance(v, (bytes, bytearray)) else ('ret', v)


def rbuf_of(bs):
    try:
        return bs.getrecvbuffer()
    except Exception as e:  # noqa
        return repr(e).encode()


def run_calls(X, script, calls, cfg, oracle=None):
    """Run `calls` (each retried after Timeout) on a BufferedSocket whose buffer holds X and whose socket
    will deliver `script`. -> (transcript, failure|None), failure = (clause, site, detail)."""
    stream = X + flat(script)
    bs, sock = mk(([X] if X else []) + list(script), cfg)
    if X and (apply(bs, ('peek', len(X))) != ('ret', X) or rbuf_of(bs) != X):
        return [], ('state_setup', 'BufferedSocket.peek', 'peek(%d) on one chunk %r did not buffer it' % (len(X), X))
    done, transcript = b'', []
    for call in calls:
        site, R = 'BufferedSocket.' + call[0], stream[len(done):]
        while True:
            t0 = sock.timeouts
            out = apply(bs, call)
            c = consumed(call, out[1]) if out[0] == 'ret' and isinstance(out[1], bytes) else b''
            buf, pend = rbuf_of(bs), sock.pending()
            if done + c + buf + pend != stream:
                kind = {'ret': 'return', 'Timeout': 'timeout'}.get(out[0], 'error')
                return transcript, ('conservation_after_' + kind, site,
                                    '%r -> %r; consumed %r + buffered %r + undelivered %r != stream %r'
                                    % (call, out, done + c, buf, pend, stream))
            if out[0] != 'Timeout':
                break
            if sock.timeouts == t0:
                return transcript, ('spurious_timeout', site, '%r raised Timeout, the socket did not time out' % (call,))
        transcript.append(out)
        exp, _ = model(R, call)
        if exp[0] == 'prefix':
            v = out[1] if out[0] == 'ret' else None
            if not (isinstance(v, bytes) and R.startswith(v) and len(v) <= call[1] and (v or not R)):
                return transcript, ('recv_prefix', site, '%r -> %r, remaining stream %r' % (call, out, R))
        else:
            if oracle is not None and len(oracle) >= len(transcript) and out != oracle[len(transcript) - 1]:
                return transcript, ('same_as_whole_stream', site, '%r -> %r; with the whole stream %r in one chunk -> %r'
                                    % (call, out, stream, oracle[len(transcript) - 1]))
            if out != exp:
                return transcript, ('result_as_documented', site, '%r on remaining stream %r -> %r, expected %r'
                                    % (call, R, out, exp))
        done += c
    return transcript, None


_whole = {}


def whole(stream, calls, cfg):
    "transcript of the same calls when the whole stream arrives in one chunk (None if a call is recv)"
    if any(c[0] == 'recv' for c in calls):
        return None
    k = (stream, calls, cfg)
    if k not in _whole:
        _whole[k] = run_calls(b'', [stream] if stream else [], calls, cfg)[0]
    return _whole[k]


def snippet_for(X, script, calls, cfg):
    "replay program: the witness schedule and the whole-stream schedule, each against the reference model"
    return SNIP_HDR + MODEL_SRC + '''
def check(X, script, calls, recvsize, timeout):
    stream = X + b''.join(x for x in script if x != 'T')
    sock = S(([X] if X else []) + script)
    bs = BufferedSocket(sock, timeout=timeout, maxsize=%d, recvsize=recvsize)
    if X: assert bs.peek(len(X)) == X
    done = b''
    for c in calls:
        while True:
            used = b''
            try:
                if c[0] == 'recv_until': v = bs.recv_until(c[1], maxsize=c[2], with_delimiter=c[3])
                elif c[0] == 'recv_close': v = bs.recv_close(maxsize=c[1])
                else: v = getattr(bs, c[0])(c[1])
                out, used = ('ret', v), consumed(c, v)
            except Timeout: out = ('Timeout',)
            except ConnectionClosed: out = ('ConnectionClosed',)
            except MessageTooLong: out = ('MessageTooLong',)
            assert done + used + bs.getrecvbuffer() + sock.pending() == stream, (c, out, done + used, bs.getrecvbuffer(), sock.pending())
            if out != ('Timeout',): break
        R = stream[len(done):]
        exp = model(R, c)[0]
        if exp[0] == 'prefix': assert out[0] == 'ret' and R.startswith(out[1]) and len(out[1]) <= c[1] and (out[1] or not R), (c, out, R)
        else: assert out == exp, (script, c, out, exp)
        done += used
X, script, calls = %r, %r, %r
check(X, script, calls, %d, %r)
check(b'', [X + b''.join(x for x in script if x != 'T')], calls, %d, %r)
''' % (CTOR_MAX, X, list(script), list(calls), cfg[0], cfg[1], cfg[0], cfg[1])


def classify(X, script, calls, cfg, fail):
    "the class of witness: which feature of the delivery schedule is necessary for this (clause, site)"
    def same(f):
        return f is not None and f[:2] == fail[:2]
    nt = [x for x in script if not isinstance(x, str)]
    st = X + flat(script)
    if T in script and not same(run_calls(X, nt, calls, cfg, whole(st, calls, cfg))[1]):
        return 'needs a socket timeout during the call'
    if not same(run_calls(b'', [st] if st else [], calls, cfg, whole(st, calls, cfg))[1]):
        return 'needs the stream split into several chunks / partly buffered'
    return 'any delivery schedule'


def case(H, part, X, script, calls, cfg, nontrivial):
    stream = X + flat(script)
    H.ev(key=(X, tuple(script), calls, cfg), nontrivial=nontrivial, part=part,
         sample=dict(buffered=repr(X), script=repr(list(script)), calls=repr(calls), recvsize=cfg[0]) if want_sample(H) else None)
    _, f = run_calls(X, script, calls, cfg, whole(stream, calls, cfg))
    if f:
        wc = classify(X, script, calls, cfg, f)
        wit = dict(buffered=repr(X), script=repr(list(script)), calls=repr(calls), recvsize=cfg[0], timeout=cfg[1])
        cur = H.failures.get((f[0], f[1], wc))      # the harness keeps the smallest witness: build a snippet only for it
        H.fail(f[0], f[1], wc, wit, f[2],
               snippet_for(X, list(script), calls, cfg) if cur is None or len(repr(wit)) < cur['_size'] else None)


def want_sample(H):
    n = H.evaluations + 1
    return n <= 4 or n & (n - 1) == 0


def states(R, max_t):
    for j in range(len(R) + 1):
        for comp in compositions(R[j:]):
            for S in with_timeouts(comp, max_t):
                yield R[:j], S


def size_calls(R):
    ns = range(1, len(R) + 2)
    return ([('recv_size', n) for n in ns] + [('peek', n) for n in ns] + [('recv', n) for n in ns] +
            [('recv_close', m) for m in list(ns) + [None]])


def until_calls(R, delims):
    ms = list(range(1, len(R) + 2)) + [None]
    # with_delimiter=True only changes where the result is cut: exercised with no limit and the two limits around len(R)
    return [('recv_until', d, m, wd) for d in delims for m in ms for wd in (False, True)
            if not wd or m is None or m >= len(R)]


def part_states(H, name, streams, callsf, cfgs, max_t, frac):
    for R in streams:
        calls = callsf(R)
        for cfg in cfgs:
            for X, S in states(R, max_t):
                nontriv = bool(X) or len(S) > 1
                for c in calls:
                    case(H, name, X, S, (c,), cfg, nontriv)
            if H.out_of_time(frac):
                H.note_truncated('%s: stopped at stream %r by the time budget' % (name, R))
                return


def words(alpha, n, need=None):
    for m in range(n + 1):
        for t in itertools.product(alpha, repeat=m):
            w = b''.join(t)
            if need is None or need in w:
                yield w


def part_sequences(H, n, max_t, L, alphabet, frac):
    "raw call sequences (no state deduplication) against the whole-stream transcript"
    cfg = (7, BIG)
    for R in words([b'a', b':'], n):
        for comp in compositions(R):
            for S in with_timeouts(comp, max_t):
                for k in range(1, L + 1):
                    for calls in itertools.product(alphabet, repeat=k):
                        case(H, 'sequences', b'', S, calls, cfg, len(S) > 1)
        if H.out_of_time(frac):
            H.note_truncated('sequences: stopped at stream %r by the time budget' % R)
            return


# ---------------------------------------------------------------------------------------------------
def run_send(ops, sends):
    "-> failure|None for a history of send-side ops over a socket with the partial-send script `sends`"
    sock = ScriptedSocket(sends=sends)
    bs = BufferedSocket(sock, timeout=BIG)
    accepted, nxt = b'', 0
    ops = list(ops) + [('flush',)] * (sum(1 for s in sends if s == T) + 1)   # final flush, retried
    for op in ops:
        site = 'BufferedSocket.' + op[0]
        data = bytes(range(97 + nxt, 97 + nxt + op[1])) if len(op) > 1 else b''
        nxt += len(data)
        t0 = sock.timeouts
        try:
            if op[0] == 'flush':
                bs.flush()
            else:
                getattr(bs, op[0])(data)
            out = 'ret'
        except Timeout:
            out = 'Timeout'
        except Exception as e:  # noqa
            return ('send_no_other_exception', site, '%r raised %r' % (op, e))
        accepted += data
        try:
            sb = bs.getsendbuffer()
        except Exception as e:  # noqa
            return ('send_no_other_exception', 'BufferedSocket.getsendbuffer', repr(e))
        if sock.wire + sb != accepted:
            return ('send_exactly_once_in_order' + ('_after_timeout' if out == 'Timeout' else ''), site,
                    'after %r: wire %r + send buffer %r != accepted %r' % (op, sock.wire, sb, accepted))
        if out == 'Timeout' and sock.timeouts == t0:
            return ('spurious_timeout', site, '%r raised Timeout, the socket did not time out' % (op,))
        if out == 'ret' and op[0] != 'buffer' and sb:
            return ('send_returns_when_all_sent', site, '%r returned with %r still buffered' % (op, sb))
    if sock.wire != accepted:
        return ('send_exactly_once_in_order', 'BufferedSocket.flush', 'final wire %r != accepted %r' % (sock.wire, accepted))
    return None


def part_send(H, L, SL):
    ops = [(o, k) for o in ('send', 'sendall', 'buffer') for k in (0, 1, 3)] + [('flush',)]
    scripts = [s for l in range(SL + 1) for s in itertools.product((1, 2, T), repeat=l) if s.count(T) <= 2]
    for l in range(1, L + 1):
        for hist in itertools.product(ops, repeat=l):
            for sends in scripts:
                H.ev(key=('send', hist, sends), nontrivial=bool(sends), part='send',
                     sample=dict(ops=repr(hist), send_script=repr(sends)) if want_sample(H) else None)
                f = run_send(hist, sends)
                if f:
                    def same(s2):
                        g = run_send(hist, s2)
                        return g is not None and g[:2] == f[:2]
                    wc = ('needs a socket timeout during send' if T in sends and not same([s for s in sends if s != T])
                          else 'needs partial sends' if not same(()) else 'any send pattern')
                    H.fail(f[0], f[1], wc, dict(ops=repr(hist), send_script=repr(sends)), f[2],
                           SNIP_HDR + '''ops, sends = %r, %r
sock = S(sends=sends); bs = BufferedSocket(sock, timeout=1000.0); acc = b''; n = 0
for op in list(ops) + [('flush',)] * 3:
    d = bytes(range(97 + n, 97 + n + op[1])) if len(op) > 1 else b''; n += len(d)
    try: bs.flush() if op[0] == 'flush' else getattr(bs, op[0])(d); ok = True
    except Timeout: ok = False
    acc += d
    assert sock.wire + bs.getsendbuffer() == acc, (op, sock.wire, bs.getsendbuffer(), acc)
    assert not (ok and op[0] != 'buffer' and bs.getsendbuffer()), (op, bs.getsendbuffer())
assert sock.wire == acc
''' % (list(hist), list(sends)))


# ---------------------------------------------------------------------------------------------------
def run_read_ns(payloads, script, maxsize, call_maxsize=None):
    wire = flat(script)
    sock = ScriptedSocket(script)
    ns = NetstringSocket(sock, timeout=BIG) if maxsize is None else NetstringSocket(sock, timeout=BIG, maxsize=maxsize)
    done = b''
    for p in payloads:
        while True:
            t0 = sock.timeouts
            try:
                out = ('ret', ns.read_ns() if call_maxsize is None else ns.read_ns(maxsize=call_maxsize))
            except Timeout:
                out = ('Timeout',)
            except Exception as e:  # noqa
                out = ('raised', '%s: %s' % (type(e).__name__, str(e)[:60]))
            if out[0] == 'Timeout':
                if sock.timeouts == t0:
                    return ('spurious_timeout', 'NetstringSocket.read_ns', 'Timeout without a socket timeout')
                rest = rbuf_of(getattr(ns, 'bsock', None)) + sock.pending()
                if done + rest != wire:
                    return ('netstring_conservation_after_timeout', 'NetstringSocket.read_ns',
                            'after Timeout: messages returned %r + buffered/undelivered %r != wire %r' % (done, rest, wire))
                continue
            break
        if out != ('ret', p):
            return ('netstring_roundtrip', 'NetstringSocket.read_ns', 'read_ns -> %r, written payload %r (wire %r)' % (out, p, wire))
        done += netstring(p)
    return None


def run_write_ns(payloads, sends, maxsize):
    sock = ScriptedSocket(sends=sends)
    ns = NetstringSocket(sock, timeout=BIG) if maxsize is None else NetstringSocket(sock, timeout=BIG, maxsize=maxsize)
    want = b''
    for p in payloads:
        want += netstring(p)
        try:
            ns.write_ns(p)
        except Timeout:
            pass
        except Exception as e:  # noqa
            return ('netstring_roundtrip', 'NetstringSocket.write_ns', 'write_ns(%r) raised %r' % (p, e))
        if sock.wire + ns.bsock.getsendbuffer() != want:
            return ('netstring_wire_format', 'NetstringSocket.write_ns', 'after write_ns(%r): wire %r + send buffer %r != %r'
                    % (p, sock.wire, ns.bsock.getsendbuffer(), want))
    for _ in range(len(sends) + 1):
        try:
            ns.bsock.flush()
        except Timeout:
            pass
    if sock.wire != want:
        return ('netstring_wire_format', 'NetstringSocket.write_ns', 'wire %r != %r' % (sock.wire, want))
    return None


def part_netstring_percall(H):
    """read_ns(maxsize=N) with a per-call limit larger than the one given to the constructor: a payload within the per-call
    limit is returned, however many digits its length prefix has"""
    for inst_max, call_max, n in ((5, 200, 120), (9, 50, 12), (1, 12, 10), (99, 100000, 4321)):
        payload = bytes(bytearray((65 + i % 26) for i in range(n)))
        wire = netstring(payload)
        for S in ([wire], [wire[:1], wire[1:]], [wire[:len(str(n))], T, wire[len(str(n)):]]):
            H.ev(key=('ns-call', inst_max, call_max, n, len(S)), nontrivial=True, part='netstring',
                 sample=dict(instance_maxsize=inst_max, call_maxsize=call_max, payload_len=n))
            f = run_read_ns((payload,), S, inst_max, call_maxsize=call_max)
            if f:
                H.fail(f[0], f[1], 'per-call maxsize larger than the constructor maxsize (length prefix with more digits)',
                       dict(instance_maxsize=inst_max, call_maxsize=call_max, payload_len=n), f[2],
                       'from boltons.socketutils import NetstringSocket\nimport socket\na, b = socket.socketpair()\n'
                       'p = b"x" * %d\nb.sendall(str(len(p)).encode() + b":" + p + b",")\nns = NetstringSocket(a, maxsize=%d)\n'
                       'assert ns.read_ns(maxsize=%d) == p\n' % (n, inst_max, call_max))


def part_netstring(H, max_t, frac):
    alpha = [b'1', b':', b',', b'a']
    singles = [(p,) for p in words(alpha, 3)]
    pairs = [(p, q) for p in words(alpha[:3], 2) for q in words(alpha[:3], 1)] if not H.thorough else \
            [(p, q) for p in words(alpha[:3], 2) for q in words(alpha[:3], 2)]
    directed = [((b'0123456789',), 10), ((b'ab:',), 3), ((b'',) * 3, 3), ((b'1:1,', b'0:,'), None)]
    for payloads, maxsize in [(x, None) for x in singles + pairs] + directed:
        wire = b''.join(netstring(p) for p in payloads)
        comps = list(compositions(wire)) if len(wire) <= 9 else [[wire], [wire[i:i + 1] for i in range(len(wire))],
                                                                [wire[i:i + 2] for i in range(0, len(wire), 2)],
                                                                [wire[i:i + 3] for i in range(0, len(wire), 3)]]
        for comp in comps:
            for S in with_timeouts(comp, max_t if len(wire) <= 6 else min(max_t, 1)):
                H.ev(key=('ns', payloads, tuple(S), maxsize), nontrivial=len(S) > 1, part='netstring',
                     sample=dict(payloads=repr(payloads), script=repr(S)) if want_sample(H) else None)
                f = run_read_ns(payloads, S, maxsize)
                if f:
                    g = run_read_ns(payloads, [x for x in S if x != T], maxsize)
                    wc = ('needs a socket timeout inside a message (read_ns retried)'
                          if T in S and not (g and g[:2] == f[:2]) else
                          'any delivery schedule' if run_read_ns(payloads, [wire], maxsize) else
                          'needs the stream split into several chunks')
                    H.fail(f[0], f[1], wc, dict(payloads=repr(payloads), script=repr(S), maxsize=maxsize), f[2],
                           SNIP_HDR + '''payloads, script = %r, %r
sock = S(script); ns = NetstringSocket(sock, timeout=1000.0%s); wire = b''.join(x for x in script if x != 'T'); done = b''
for p in payloads:
    while True:
        try: got = ns.read_ns(); break
        except Timeout: assert done + ns.bsock.getrecvbuffer() + sock.pending() == wire, (done, ns.bsock.getrecvbuffer(), sock.pending())
    assert got == p, (got, p)
    done += str(len(p)).encode() + b':' + p + b','
''' % (list(payloads), S, '' if maxsize is None else ', maxsize=%d' % maxsize))
        for sends in [(), (1,), (1, 1, 1), (2, T, 1), (T, T), (1, T, 2, T)] if len(payloads[0]) < 4 else [(), (3, T, 1)]:
            H.ev(key=('nsw', payloads, sends, maxsize), part='netstring')
            f = run_write_ns(payloads, sends, maxsize)
            if f:
                H.fail(f[0], f[1], 'any payload', dict(payloads=repr(payloads), send_script=repr(sends)), f[2],
                       SNIP_HDR + '''payloads, sends = %r, %r
sock = S(sends=sends); ns = NetstringSocket(sock, timeout=1000.0%s); want = b''
for p in payloads:
    want += str(len(p)).encode() + b':' + p + b','
    try: ns.write_ns(p)
    except Timeout: pass
    assert sock.wire + ns.bsock.getsendbuffer() == want, (sock.wire, ns.bsock.getsendbuffer(), want)
for _ in range(len(sends) + 1):
    try: ns.bsock.flush()
    except Timeout: pass
assert sock.wire == want, (sock.wire, want)
''' % (list(payloads), list(sends), '' if maxsize is None else ', maxsize=%d' % maxsize))
        if H.out_of_time(frac):
            H.note_truncated('netstring: stopped at payloads %r by the time budget' % (payloads,))
            return


def part_random(H, seed, n):
    rnd = random.Random(seed)
    for _ in range(n):
        R = bytes(rnd.choice(b'ab:') for _ in range(rnd.randint(0, 14)))
        comp, i = [], 0
        while i < len(R):
            k = rnd.randint(1, 4)
            comp.append(R[i:i + k])
            i += k
        S = []
        for ch in comp + [None]:
            S.extend([T] * rnd.choice((0, 0, 0, 1, 2)))
            if ch:
                S.append(ch)
        calls = tuple(rnd.choice([('recv_until', rnd.choice([b':', b'::', b'a:', b'ab', b':a:']), rnd.choice([1, 2, 3, 5, 8, None]),
                                   rnd.random() < .5), ('recv_size', rnd.randint(1, 5)), ('peek', rnd.randint(1, 5)),
                                  ('recv', rnd.randint(1, 5)), ('recv_close', rnd.choice([2, 5, None]))])
                      for _ in range(rnd.randint(1, 8)))
        case(H, 'random', b'', S, calls, (rnd.choice([1, 2, 3, 16]), rnd.choice([BIG, None])), True)


def run():
    H = Harness('C12',
                rule='one evaluation = one call sequence (each call retried after Timeout, conservation checked after '
                     'every attempt) on one delivery schedule; non-trivial = the schedule has more than one chunk, a '
                     'timeout, or data already buffered (for send/netstrings: a non-empty send script / more than one chunk)',
                bounds=dict(
                    quick='per-call contract from every state (buffered prefix, composition of the rest, <=2 timeouts in any '
                          'slots): distinct-byte streams <=6 x recv_size/peek/recv/recv_close sizes 1..len+1 x (recvsize, timeout) in '
                          '{(7,1000s),(7,None),(1,1000s),(2,None),(3,1000s)}; all streams <=5 over {a,:} x recv_until delimiters {:, ::, a:} x maxsize '
                          '1..len+1,None (with_delimiter=True: maxsize len,len+1,None); all streams <=4 over {a,b,:} containing b x delimiter a:; raw call '
                          'sequences <=3 over 6 calls on streams <=4, <=1 timeout; send histories <=3 x partial-send scripts <=3; '
                          'netstrings: 1 payload <=3 bytes over {1,:,",",a}, 2 payloads <=2/<=1, all compositions, <=1 timeout',
                    thorough='same with streams <=6 over {a,:}, <=5 (<=6 with <=1 timeout) over {a,b,:}, recvsize 1..7, sequences '
                             '<=3 over 8 calls on streams <=5 with <=2 timeouts, send histories <=4 x scripts <=4, netstring '
                             'pairs <=2/<=2 with <=2 timeouts, plus seeded random long histories'))
    th, part = H.thorough, H.args.part
    D = [b'abcdef'[:m] for m in range(7)]
    if part in (None, 'sizes'):
        part_states(H, 'sizes', D, size_calls, [(r, t) for r in (7, 1, 2, 3, 4, 5, 6) for t in (BIG, None)] if th else [(7, BIG), (7, None), (1, BIG), (2, None), (3, BIG)], 2, 0.2)
        part_states(H, 'sizes', list(words([b'a', b':'], 4 if th else 3)), size_calls, [(7, BIG)], 2, 0.25)
    if part in (None, 'until'):
        part_states(H, 'until', list(words([b'a', b':'], 6 if th else 5)), lambda R: until_calls(R, [b':', b'::', b'a:']),
                    [(7, BIG)], 2, 0.55)
        part_states(H, 'until', list(words([b'a', b':'], 4)), lambda R: until_calls(R, [b':', b'::', b'a:']),
                    [(1, BIG), (2, None)] + ([(3, BIG)] if th else []), 2, 0.6)
        part_states(H, 'until3', list(words([b'a', b'b', b':'], 5 if th else 4, need=b'b')), lambda R: until_calls(R, [b'a:']),
                    [(7, BIG)], 2, 0.75)
        if th:
            part_states(H, 'until3', [w for w in words([b'a', b'b', b':'], 6, need=b'b') if len(w) == 6],
                        lambda R: until_calls(R, [b'a:']), [(7, BIG)], 1, 0.85)
    if part in (None, 'sequences'):
        alpha = [('recv_until', b':', None, False), ('recv_until', b'a:', 3, True), ('recv_size', 2), ('peek', 3), ('recv', 1),
                 ('recv_close', 2)] + ([('recv_until', b'::', 4, False), ('recv_size', 1)] if th else [])
        part_sequences(H, 5 if th else 4, 2 if th else 1, 3, alpha, 0.9)
    if part in (None, 'send'):
        part_send(H, 4 if th else 3, 4 if th else 3)
    if part in (None, 'netstring'):
        part_netstring(H, 2 if th else 1, 0.97)
        part_netstring_percall(H)
    if th and part in (None, 'random'):
        part_random(H, H.seed, 60000)
    H.finish()


main_wrapper(run)
