"""Run-time side of the contract layer (bounded stand-in).

A bounded check is a Python file /verif/bounded/Cxx.py executed by the interpreter the test-suite
uses (/venv/bin/python) with PYTHONPATH=<repo>.  It states contracts on the *real* boltons
functions as executable predicates, drives them over a bounded-exhaustive scope and reports through
this harness.  Nothing here is ever counted as a proof; the evidence labels it `bounded`.

Protocol (stdout, last line):  RESULT <json>
  evaluations, distinct_nontrivial, rule, bounds, samples, failures[], truncated, wall_s

A failure is identified by the triple (clause, site, wclass):
  clause  - which clause of the property statement (stable name chosen by the check)
  site    - public API entry / call site that misbehaves
  wclass  - the class of witness (what the input needs in order to fail)
known_findings.json is matched on exactly that triple, so a different violation of the same
property is still reported.
"""
import argparse
import hashlib
import json
import os
import sys
import time
import traceback


class Harness:
    def __init__(self, pid, rule, bounds):
        ap = argparse.ArgumentParser()
        ap.add_argument('--tier', default=os.environ.get('VERIF_TIER', 'quick'))
        ap.add_argument('--seed', type=int, default=int(os.environ.get('VERIF_SEED', '0') or 0))
        ap.add_argument('--budget', type=float, default=None, help='wall seconds')
        ap.add_argument('--part', default=None, help='run only the named part')
        self.args = ap.parse_args()
        self.pid = pid
        self.tier = self.args.tier
        self.thorough = self.tier == 'thorough'
        self.seed = self.args.seed
        self.rule = rule
        self.bounds = bounds
        self.t0 = time.time()
        self.budget = self.args.budget or (1500.0 if self.thorough else 100.0)
        self.evaluations = 0
        self.nontrivial = set()
        self.nontrivial_overflow = 0
        self.samples = []
        self.failures = {}
        self.fail_counts = {}
        self.truncated = []
        self.parts = {}
        self._check_repo()

    def _check_repo(self):
        import boltons
        want = os.environ.get('VERIF_REPO', '/repo')
        got = os.path.realpath(os.path.dirname(os.path.dirname(boltons.__file__)))
        if got != os.path.realpath(want):
            print('CHECKER-ERROR boltons imported from %s, expected %s' % (got, want))
            sys.exit(3)

    # -- accounting -------------------------------------------------------------------------
    def ev(self, key=None, nontrivial=True, sample=None, part=None):
        """count one evaluation of a contract on the real code. key: hashable/str identifying the
        case (for the distinct count); nontrivial: by the rule stated in `rule`."""
        self.evaluations += 1
        if part:
            self.parts[part] = self.parts.get(part, 0) + 1
        if nontrivial and key is not None:
            if len(self.nontrivial) < 2_000_000:
                self.nontrivial.add(hash(key) if not isinstance(key, int) else key)
            else:
                self.nontrivial_overflow += 1
        if sample is not None:
            n = self.evaluations
            if len(self.samples) < 4 or (n & (n - 1)) == 0 and len(self.samples) < 24:
                self.samples.append(_short(sample))

    def out_of_time(self, frac=1.0):
        return (time.time() - self.t0) > self.budget * frac

    def note_truncated(self, what):
        if what not in self.truncated:
            self.truncated.append(what)

    # -- failures ---------------------------------------------------------------------------
    def fail(self, clause, site, wclass, witness, detail, snippet=None):
        key = (clause, site, wclass)
        self.fail_counts[key] = self.fail_counts.get(key, 0) + 1
        cur = self.failures.get(key)
        size = len(repr(witness))
        if cur is None or size < cur['_size']:
            self.failures[key] = dict(clause=clause, site=site, wclass=wclass,
                                      witness=_short(witness, 2000), detail=_short(detail, 2000),
                                      snippet=snippet, _size=size)

    def check(self, cond, clause, site, wclass, witness, detail='', snippet=None):
        if not cond:
            self.fail(clause, site, wclass, witness, detail, snippet)
        return cond

    def guard(self, fn, clause, site, wclass, witness, snippet=None, allowed=()):
        """run fn(); an exception not in `allowed` is a failure of clause. returns (ok, value)"""
        try:
            return True, fn()
        except allowed as e:
            return False, e
        except Exception as e:  # noqa
            self.fail(clause, site, wclass, witness,
                      'raised %s: %s' % (type(e).__name__, _short(str(e), 300)), snippet)
            return False, e

    def finish(self):
        fl = []
        for key, f in sorted(self.failures.items()):
            f = dict(f)
            f.pop('_size', None)
            f['count'] = self.fail_counts[key]
            fl.append(f)
        res = dict(property_id=self.pid, tier=self.tier, seed=self.seed,
                   evaluations=self.evaluations,
                   distinct_nontrivial=len(self.nontrivial) + self.nontrivial_overflow,
                   rule=self.rule, bounds=self.bounds, samples=self.samples, failures=fl,
                   truncated=self.truncated, parts=self.parts,
                   wall_s=round(time.time() - self.t0, 2))
        sys.stdout.flush()
        print('RESULT ' + json.dumps(res, default=repr))
        sys.stdout.flush()


def _short(x, n=400):
    if isinstance(x, (int, float, bool)) or x is None:
        return x
    if isinstance(x, (list, tuple)) and len(repr(x)) <= n:
        try:
            json.dumps(x)
            return x
        except Exception:
            pass
    if isinstance(x, dict) and len(repr(x)) <= n:
        try:
            json.dumps(x)
            return x
        except Exception:
            pass
    s = x if isinstance(x, str) else repr(x)
    return s if len(s) <= n else s[:n] + '...<%d more>' % (len(s) - n)


def snippet(body, header=''):
    """build a self-contained replay program: exits 1 (AssertionError) iff the failure reproduces."""
    return ('import sys\n' + header + '\n' + body + '\n')


def main_wrapper(fn):
    try:
        fn()
    except SystemExit:
        raise
    except BaseException:
        traceback.print_exc()
        print('CHECKER-ERROR bounded check crashed')
        sys.exit(3)
