"""Reference model for C15 (backoff), written from the property statement, over exact rationals.

b_0 = start; a start of 0 is followed by min(1, stop); afterwards b_{i+1} = min(b_i * factor, stop)
("grow by exactly factor per step until they would pass stop and then stay at stop").
Parameters are converted with Fraction(float(x)): the real number the float denotes, no rounding.
"""
from fractions import Fraction
import math


def F(x):
    return Fraction(float(x))


def valid(start, stop, factor):
    start, stop, factor = F(start), F(stop), F(factor)
    return 0 <= start <= stop and stop > 0 and factor >= 1


def base_curve(start, stop, factor, n):
    """first n un-jittered values as exact Fractions"""
    start, stop, factor = F(start), F(stop), F(factor)
    out = []
    cur = start
    for _ in range(n):
        out.append(cur)
        if cur == 0:
            cur = min(Fraction(1), stop)
        else:
            cur = min(cur * factor, stop)
    return out


def close(got, exact, ulps=8):
    """float `got` equals the real `exact` up to floating-point rounding (a few ulps of got/exact)"""
    g = Fraction(got)
    tol = ulps * max(Fraction(math.ulp(got)), Fraction(math.ulp(float(exact))))
    return abs(g - exact) <= tol


def within(got, lo, hi, ulps=8):
    """lo <= got <= hi up to rounding"""
    g = Fraction(got)
    if lo > hi:
        lo, hi = hi, lo
    tol = ulps * max(Fraction(math.ulp(float(lo))), Fraction(math.ulp(float(hi))))
    return lo - tol <= g <= hi + tol
