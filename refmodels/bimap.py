"""Reference models for C17, written from the property statement.

InjectiveMap  -- OneToOne: a partial injective map K -> V (no value under two keys).  An operation applied to
                 side 0 works on the map, on side 1 on its inverse; assignment evicts the previous partner of
                 the key AND the previous owner of the value; update / |= / construction = assignments in
                 argument order, whatever the argument form (dict, list of pairs, one-shot iterator, kwargs).
PairSet       -- ManyToMany: a set of (key, value) pairs; side 1 sees the transposed set.
Where the statement is silent (which pair popitem removes; whether replace() onto an existing key merges or
overwrites) the model returns every acceptable outcome.
"""
_NO = object()


class InjectiveMap:
    def __init__(self, d=None):
        self.d = dict(d or {})

    def clone(self):
        return InjectiveMap(self.d)

    def view(self, side):
        return dict(self.d) if side == 0 else {v: k for k, v in self.d.items()}

    def _store(self, side, x):
        self.d = x if side == 0 else {v: k for k, v in x.items()}

    @staticmethod
    def _set(x, k, v):
        hash(k), hash(v)
        x.pop(k, None)
        for kk in [kk for kk, vv in x.items() if vv == v]:
            del x[kk]
        x[k] = v

    def setitem(self, side, k, v):
        x = self.view(side)
        self._set(x, k, v)
        self._store(side, x)

    def delitem(self, side, k):
        x = self.view(side)
        del x[k]
        self._store(side, x)

    def update(self, side, pairs, kw=()):
        pairs = list(pairs) + list(kw)
        for k, v in pairs:      # dict.update semantics: a bad element means nothing is half-applied is NOT promised;
            hash(k), hash(v)    # the checks use hashable atoms only
        x = self.view(side)
        for k, v in pairs:
            self._set(x, k, v)
        self._store(side, x)

    def setdefault(self, side, k, default=None):
        x = self.view(side)
        if k not in x:
            self._set(x, k, default)
            self._store(side, x)
        return x[k]

    def pop(self, side, k, default=_NO):
        x = self.view(side)
        if k not in x:
            if default is _NO:
                raise KeyError(k)
            return default
        v = x.pop(k)
        self._store(side, x)
        return v

    def popitem_options(self, side):
        x = self.view(side)
        if not x:
            raise KeyError('empty')
        return [((k, v), {kk: vv for kk, vv in x.items() if kk != k}) for k, v in x.items()]

    def clear(self, side):
        self.d = {}


class PairSet:
    def __init__(self, pairs=()):
        self.s = set(pairs)

    def clone(self):
        return PairSet(self.s)

    def view(self, side):
        return set(self.s) if side == 0 else set((v, k) for k, v in self.s)

    def _store(self, side, x):
        self.s = x if side == 0 else set((v, k) for k, v in x)

    def keys(self, side):
        return set(k for k, _ in self.view(side))

    def vals(self, side, k):
        return frozenset(v for kk, v in self.view(side) if kk == k)

    def add(self, side, k, v):
        x = self.view(side)
        x.add((k, v))
        self._store(side, x)

    def remove(self, side, k, v):
        x = self.view(side)
        if (k, v) not in x:
            raise KeyError(k)
        x.discard((k, v))
        self._store(side, x)

    def setitem(self, side, k, vals):
        vals = list(vals)
        x = set(p for p in self.view(side) if p[0] != k) | set((k, v) for v in vals)
        self._store(side, x)

    def delitem(self, side, k):
        if k not in self.keys(side):
            raise KeyError(k)
        self._store(side, set(p for p in self.view(side) if p[0] != k))

    def update(self, side, pairs):
        x = self.view(side) | set(pairs)
        self._store(side, x)

    def replace_options(self, side, k, newk):
        """acceptable pair sets (in the side's orientation) after replace(k, newk)"""
        x = self.view(side)
        if k not in self.keys(side):
            return [x]
        moved = set((newk, v) for kk, v in x if kk == k)
        rest = set(p for p in x if p[0] != k)
        return [rest | moved, set(p for p in rest if p[0] != newk) | moved]
