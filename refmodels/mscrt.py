r"""Reference model: how the Microsoft C runtime splits a command line into argv[1:].

Written from the documented rules ("Parsing C++ Command-Line Arguments", the text quoted in the
docstring of boltons.strutils.args2cmd / subprocess.list2cmdline) and from the loop of the CRT's
parse_cmdline (stdargv.c):

  1. arguments are delimited by white space, which is a space or a tab (nothing else; newline is data);
  2. a string surrounded by double quotation marks is one argument whatever white space it contains;
     a quoted string can be embedded in an argument (the quote marks themselves are dropped);
  3. 2N   backslashes followed by "  ->  N backslashes, and the " toggles quoting;
     2N+1 backslashes followed by "  ->  N backslashes and a literal ";
  4. N backslashes not followed by "  ->  N backslashes, literally.

The documented rules are silent about a "" inside a quoted part; the real runtimes differ:
  variant 'documented' : no special case ("" closes and re-opens / opens and closes the quoting);
  variant 'crt2005'    : inside quotes "" gives a literal " and LEAVES quote mode (msvcrt before 2008);
  variant 'crt2008'    : inside quotes "" gives a literal " and STAYS in quote mode (msvcr90 and later, ucrt).
An encoder is correct when all three variants recover the arguments (true for text that never contains ""
inside a quoted part, which is the case for every correct list2cmdline-style encoder).

All characters of the command line are treated as arguments (there is no special rule for argv[0] here:
args2cmd encodes a list of arguments, the program name is just another argument that must not contain
a double quote in the real CRT; that restriction is outside this model).
"""
VARIANTS = ('documented', 'crt2005', 'crt2008')


def split(cmdline, variant='documented'):
    assert variant in VARIANTS
    s, n, i, args = cmdline, len(cmdline), 0, []
    while True:
        while i < n and s[i] in ' \t':
            i += 1
        if i >= n:
            break
        cur, inquote = [], False
        while True:
            copychar = True
            numslash = 0
            while i < n and s[i] == '\\':
                i += 1
                numslash += 1
            if i < n and s[i] == '"':
                if numslash % 2 == 0:
                    nxt_is_quote = i + 1 < n and s[i + 1] == '"'
                    if inquote and nxt_is_quote and variant == 'crt2008':
                        i += 1                      # copy the second quote, stay in quote mode
                    elif inquote and nxt_is_quote and variant == 'crt2005':
                        i += 1                      # copy the second quote, leave quote mode
                        inquote = False
                    else:
                        copychar = False
                        inquote = not inquote
                numslash //= 2
            cur.append('\\' * numslash)
            if i >= n or (not inquote and s[i] in ' \t'):
                break
            if copychar:
                cur.append(s[i])
            i += 1
        args.append(''.join(cur))
    return args


def split_all(cmdline):
    """{variant: argv}"""
    return {v: split(cmdline, v) for v in VARIANTS}


# examples from the Microsoft documentation table (argv[1:] of each command line) + the two "" cases
DOC_EXAMPLES = [
    ('"abc" d e', ['abc', 'd', 'e'], None),
    (r'a\\b d"e f"g h', [r'a\\b', 'de fg', 'h'], None),
    (r'a\\\"b c d', [r'a\"b', 'c', 'd'], None),
    (r'a\\\\"b c" d e', [r'a\\b c', 'd', 'e'], None),
    ('a"b"" c d', ['ab" c d'], 'crt2008'),
    ('a"b"" c d', ['ab"', 'c', 'd'], 'crt2005'),
    ('"" "a b" \t c', ['', 'a b', 'c'], None),
    ('a\nb', ['a\nb'], None),
    ('\\\\', ['\\\\'], None),
    ('"a\\\\" b', ['a\\', 'b'], None),
]


def self_test():
    """returns a list of problems (empty when the model reproduces the documented examples and inverts
    subprocess.list2cmdline on a fixed sample)."""
    import itertools
    import subprocess
    bad = []
    for text, want, only in DOC_EXAMPLES:
        for v in VARIANTS:
            if only is not None and v != only:
                continue
            got = split(text, v)
            if got != want:
                bad.append('doc example %r variant %s: %r != %r' % (text, v, got, want))
    alpha = ['a', ' ', '\t', '"', '\\', '\n']
    strs = [''.join(p) for k in range(0, 4) for p in itertools.product(alpha, repeat=k)]
    n = 0
    for a in strs:
        for lst in ([a], ['x', a], [a, '\\'], [a, a]):
            text = subprocess.list2cmdline(lst)
            n += 1
            for v in VARIANTS:
                if split(text, v) != lst:
                    bad.append('list2cmdline(%r) = %r splits to %r (%s)' % (lst, text, split(text, v), v))
                    break
    return bad, n


if __name__ == '__main__':
    b, n = self_test()
    print('mscrt self-test: %d list2cmdline samples, %d problems' % (n, len(b)))
    for x in b[:10]:
        print(' ', x)
    raise SystemExit(1 if b else 0)
