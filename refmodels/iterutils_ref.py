"""Reference models for C09 (chunking / windowing / splitting / grouping), written from the property
statement.  All of them work on a plain list of elements and return plain lists."""

UNSET = object()


def ref_chunked(elems, size, fill=UNSET, count=None):
    out = [list(elems[i:i + size]) for i in range(0, len(elems), size)]
    if fill is not UNSET and out and len(out[-1]) < size:
        out[-1] = out[-1] + [fill] * (size - len(out[-1]))
    return out if count is None else out[:count]


def ref_windowed(elems, size, fill=UNSET):
    n = len(elems)
    if fill is UNSET:
        return [list(elems[i:i + size]) for i in range(0, n - size + 1)]
    return [list(elems[i:i + size]) + [fill] * max(0, i + size - n) for i in range(n)]


def ref_split_strings(idx_seq, sepidx, grouping, maxsplit):
    """str.split on the corresponding character string: element index i -> 'xyz'[i], separators -> ',' (or
    ' ' for sep=None, which groups).  Returns (string, list of pieces)."""
    sc = ' ' if grouping else ','
    s = ''.join(sc if i in sepidx else 'xyz'[i] for i in idx_seq)
    m = -1 if maxsplit is None else maxsplit
    return s, (s.split(None, m) if grouping else s.split(sc, m))


def ref_strip(idx_seq, sepi, which):
    s = ''.join(',' if i == sepi else 'xyz'[i] for i in idx_seq)
    t = {'strip': s.strip, 'lstrip': s.lstrip, 'rstrip': s.rstrip}[which](',')
    # position of t inside s (strip removes only from the ends)
    start = len(s) - len(s.lstrip(',')) if which in ('strip', 'lstrip') else 0
    if not t:
        return []
    return list(idx_seq[start:start + len(t)])


def ref_key(key):
    if key is None:
        return lambda x: x
    if isinstance(key, str):
        return lambda x: getattr(x, key, x)
    return key


def ref_unique(elems, key=None):
    kf, seen, out = ref_key(key), [], []
    for e in elems:
        k = kf(e)
        if not any(k == s for s in seen):
            seen.append(k)
            out.append(e)
    return out


def ref_dup_keys(elems, key=None):
    """keys seen more than once (list of distinct keys, by ==), and all elements per key in input order"""
    kf, keys, groups = ref_key(key), [], []
    for e in elems:
        k = kf(e)
        for i, s in enumerate(keys):
            if s == k:
                groups[i].append(e)
                break
        else:
            keys.append(k)
            groups.append([e])
    return [(k, g) for k, g in zip(keys, groups) if len(g) > 1]


def ref_buckets(elems, keys):
    """pairs (key, [elements with that key, in input order]) - keys given per element"""
    ks, bs = [], []
    for e, k in zip(elems, keys):
        for i, s in enumerate(ks):
            if s == k:
                bs[i].append(e)
                break
        else:
            ks.append(k)
            bs.append([e])
    return list(zip(ks, bs))


def chunk_ranges_violations(R, size, chunk, offset, overlap, align):
    """clauses of the statement that the list of ranges R violates (names)"""
    bad = []
    stop = offset + size
    if size == 0:
        if any(a != offset or b != offset for a, b in R):
            bad.append('chunk_ranges_bounds')
        return bad
    if not R:
        return ['chunk_ranges_cover']
    if any(not (a <= b and b - a <= chunk) for a, b in R):
        bad.append('chunk_ranges_max_length')
    if R[0][0] != offset or R[-1][1] != stop or any(a < offset or b > stop for a, b in R):
        bad.append('chunk_ranges_bounds')
    if any(R[i + 1][0] != R[i][1] - overlap for i in range(len(R) - 1)):
        bad.append('chunk_ranges_overlap_step')
    covered = set()
    for a, b in R:
        covered.update(range(a, b))
    if not covered >= set(range(offset, stop)):
        bad.append('chunk_ranges_cover')
    if align and any(a % (chunk - overlap) for a, _ in R[1:]):
        bad.append('chunk_ranges_aligned')
    if any(b >= stop for _, b in R[:-1]):
        bad.append('chunk_ranges_end_reached_once')   # "end at offset+size": nothing follows the range that reaches it
    return bad
