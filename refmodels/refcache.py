"""Reference cache for C02/C03, written from the property statement (not from boltons).

State: data (key -> value), stamp (key -> time of the key's latest insertion-or-assignment, for the
LRU also latest successful lookup), a clock, the three counters and the list of on_miss calls.
Inserting a new key into a full cache evicts exactly the key with the minimal stamp.

"lookup" = item get, get(), setdefault().  Membership, len, iteration, ==, pop are not lookups.
Every lookup of an absent key counts a miss; with on_miss set its result is cached and returned
(so the caller default is not used and no soft miss is counted); without on_miss get()/setdefault()
answer with the caller default and count a soft miss, item get raises KeyError.
"""

ABSENT = object()


class RefCache:
    def __init__(self, max_size, lru, on_miss=None):
        self.max_size, self.lru, self.on_miss = max_size, lru, on_miss
        self.data, self.stamp, self.clock = {}, {}, 0
        self.hit = self.miss = self.soft = 0
        self.calls = []                                   # keys on_miss was called with

    # -- primitives --------------------------------------------------------------------------
    def _touch(self, k):
        self.clock += 1
        self.stamp[k] = self.clock

    def order(self):
        """keys, next eviction victim first"""
        return sorted(self.data, key=self.stamp.__getitem__)

    def assign(self, k, v):
        if k not in self.data and len(self.data) >= self.max_size:
            victim = self.order()[0]
            del self.data[victim], self.stamp[victim]
        self.data[k] = v
        self._touch(k)

    def _lookup(self, k):
        if k in self.data:
            self.hit += 1
            if self.lru:
                self._touch(k)
            return self.data[k]
        self.miss += 1
        if self.on_miss is not None:
            self.calls.append(k)
            v = self.on_miss(k)
            self.assign(k, v)
            return v
        return ABSENT

    def remove(self, k):
        del self.data[k], self.stamp[k]

    # -- dict API ----------------------------------------------------------------------------
    def getitem(self, k):
        v = self._lookup(k)
        if v is ABSENT:
            raise KeyError(k)
        return v

    def get(self, k, default=None):
        v = self._lookup(k)
        if v is ABSENT:
            self.soft += 1
            return default
        return v

    def setdefault(self, k, default=None):
        v = self._lookup(k)
        if v is ABSENT:
            self.soft += 1
            self.assign(k, default)
            return default
        return v

    def delete(self, k):
        if k not in self.data:
            raise KeyError(k)
        self.remove(k)

    def pop(self, k, *default):
        if k in self.data:
            v = self.data[k]
            self.remove(k)
            return v
        if default:
            return default[0]
        raise KeyError(k)

    def clear(self):
        self.data.clear()
        self.stamp.clear()

    def update(self, pairs=(), **kw):
        for k, v in (list(pairs.items()) if hasattr(pairs, 'items') else list(pairs)):
            self.assign(k, v)
        for k, v in kw.items():
            self.assign(k, v)

    def copy(self):
        m = RefCache(self.max_size, self.lru, self.on_miss)
        m.data, m.stamp, m.clock = dict(self.data), dict(self.stamp), self.clock
        return m                                          # counters of a copy: statement is silent

    def counters(self):
        return (self.hit, self.miss, self.soft)

    def key(self):
        return (tuple((k, self.data[k]) for k in self.order()), self.counters(), len(self.calls))


def probe_order(cache, n, tag='z'):
    """Destructively observe the eviction order of a dict-like cache: insert n fresh keys one at a
    time and record which old keys disappear after each insert. Works on RefCache and on LRI/LRU."""
    is_ref = isinstance(cache, RefCache)
    seq = []
    for i in range(n):
        before = set(cache.data) if is_ref else set(cache.keys())
        fresh = (tag, i)
        if is_ref:
            cache.assign(fresh, 0)
        else:
            cache[fresh] = 0
        after = set(cache.data) if is_ref else set(cache.keys())
        seq.append(tuple(sorted(before - after, key=repr)))
        if fresh not in after:
            seq.append('fresh key not stored')
    return seq
