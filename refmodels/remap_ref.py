"""Reference model for C08 (remap / research / get_path), written from the property statement.

rebuild(root, visit)  - the straightforward bottom-up recursive rebuild: every container is rebuilt from the
                        rebuilt values of its items (in item order), visit(path, key, new_value) decides per item
                        (True keep / False drop / new (key, value) pair); memoised on id() so an object referenced
                        several times is rebuilt once and stays shared; a reference back to a container that is
                        still being rebuilt resolves to its blank new parent (the same object that is filled
                        later for dict/list/set; the blank () / frozenset() for immutable parents).
iso(exp, got)         - equality of two object graphs: same container types, keys, order, leaves (value and type),
                        and the same aliasing (exp node shared => got node shared; one-to-one for mutable nodes).
build(spec)           - construct a (possibly shared / cyclic) structure from a node list, None if impossible.
"""

MUTABLE = (dict, list, set)
KINDS = (dict, list, tuple, set, frozenset)
DICT_KEYS = ('a', 0, None)


def kind(x):
    for k in KINDS:
        if type(x) is k:
            return k
    return None


def items_of(c):
    return list(c.items()) if type(c) is dict else list(enumerate(c))


def rebuild(root, visit=None, ignore_errors=False):
    memo = {}

    def rb(path, key, value, is_root):
        k = kind(value)
        if k is None:
            return value
        if id(value) in memo:
            return memo[id(value)]
        blank = k()
        memo[id(value)] = blank
        sub = path if is_root else path + (key,)
        new_items = []
        for ik, iv in items_of(value):
            nv = rb(sub, ik, iv, False)
            if visit is None:
                r = True
            else:
                try:
                    r = visit(sub, ik, nv)
                except Exception:
                    if not ignore_errors:
                        raise
                    r = True
            if r is False:
                continue
            if r is True:
                r = (ik, nv)
            new_items.append(r)
        if k is dict:
            for nk, nv in new_items:
                blank[nk] = nv
            res = blank
        elif k is list:
            blank.extend(v for _, v in new_items)
            res = blank
        elif k is set:
            for _, v in new_items:
                blank.add(v)
            res = blank
        else:
            res = k([v for _, v in new_items])
        memo[id(value)] = res
        return res

    if kind(root) is None:
        raise TypeError('root is not a container')
    return rb((), None, root, True)


def iso(exp, got):
    """None if the graphs agree, else a short reason (prefixed 'aliasing:' when only the sharing differs)"""
    fwd, bwd = {}, {}

    def go(x, y, where):
        kx = kind(x)
        if kx is None or kind(y) is None:
            if kx is None and kind(y) is None and type(x) is type(y) and x == y:
                return None
            return 'at %r: %s vs %s' % (where, _r(x), _r(y))
        if type(x) is not type(y):
            return 'at %r: container type %s vs %s' % (where, type(x).__name__, type(y).__name__)
        ix, iy = id(x), id(y)
        if ix in fwd:
            return None if fwd[ix] == iy else 'aliasing: at %r a shared object is not shared in the result' % (where,)
        if kx in MUTABLE and iy in bwd:
            return 'aliasing: at %r distinct objects became one' % (where,)
        fwd[ix] = iy
        bwd[iy] = ix
        if len(x) != len(y):
            return 'at %r: length %d vs %d' % (where, len(x), len(y))
        if kx is dict:
            kxs, kys = list(x), list(y)
            if kxs != kys or [type(k) for k in kxs] != [type(k) for k in kys]:
                return 'at %r: keys %r vs %r' % (where, kxs, kys)
            pairs = [(k, x[k], y[k]) for k in kxs]
        elif kx in (list, tuple):
            pairs = [(i, a, b) for i, (a, b) in enumerate(zip(x, y))]
        else:
            pairs = []
            rest = list(y)
            for a in x:        # members are immutable hashables: match by ==
                m = [b for b in rest if type(a) is type(b) and a == b]
                if not m:
                    return 'at %r: member %s missing' % (where, _r(a))
                rest.remove(m[0])
                pairs.append(('<member>', a, m[0]))
        for k, a, b in pairs:
            r = go(a, b, where + (k,))
            if r:
                return r
        return None
    return go(exp, got, ())


def _r(x):
    try:
        return repr(x)[:80]
    except RecursionError:
        return '<cyclic %s>' % type(x).__name__


def containers(root):
    """id -> container for every container reachable from root"""
    seen, todo = {}, [root]
    while todo:
        c = todo.pop()
        if kind(c) is None or id(c) in seen:
            continue
        seen[id(c)] = c
        todo.extend(c.values() if type(c) is dict else c)
    return seen


def snapshot(root):
    """identity/value snapshot of the whole input graph (used for 'the input is never mutated')"""
    out = []
    for i, c in sorted(containers(root).items()):
        out.append((i, type(c), tuple((k, id(v) if kind(v) else (type(v), v)) for k, v in items_of(c))))
    return out


def has_cycle(root):
    state = {}

    def dfs(c):
        if kind(c) is None:
            return False
        if state.get(id(c)) == 1:
            return True
        if state.get(id(c)) == 2:
            return False
        state[id(c)] = 1
        r = any(dfs(v) for v in (c.values() if type(c) is dict else c))
        state[id(c)] = 2
        return r
    return dfs(root)


def cycle_through_tuple(root):
    """some tuple is reachable from itself (such a cycle has no mutable-parent-only resolution)"""
    for c in containers(root).values():
        if type(c) is tuple and c:
            seen, todo = set(), list(c)
            while todo:
                v = todo.pop()
                if v is c:
                    return True
                if kind(v) is None or id(v) in seen:
                    continue
                seen.add(id(v))
                todo.extend(v.values() if type(v) is dict else v)
    return False


def has_sharing(root):
    cnt = {}
    for c in containers(root).values():
        for v in (c.values() if type(c) is dict else c):
            if kind(v):
                cnt[id(v)] = cnt.get(id(v), 0) + 1
    return any(n > 1 for n in cnt.values())


# -- structures from specs ------------------------------------------------------------------------
# spec = tuple of nodes (type_name, slots); slot = ('L', leaf) | ('R', node index); node 0 is the root.
TYPES = {'dict': dict, 'list': list, 'tuple': tuple, 'set': set, 'frozenset': frozenset}


def build(spec):
    """two-phase construction: mutable nodes first (empty), immutable nodes bottom-up, then fill.
    Returns the root or None when the spec is not constructible (immutable cycle, unhashable member)."""
    objs = {}
    for i, (t, _) in enumerate(spec):
        if t in ('dict', 'list', 'set'):
            objs[i] = TYPES[t]()
    busy = set()

    def imm(i):
        if i in objs:
            return objs[i]
        if i in busy:
            raise ValueError('immutable cycle')
        busy.add(i)
        t, slots = spec[i]
        vals = [s[1] if s[0] == 'L' else imm(s[1]) for s in slots]
        objs[i] = TYPES[t](vals)
        if t == 'frozenset' and len(objs[i]) != len(vals):
            raise ValueError('collapsing members')
        return objs[i]
    try:
        for i in range(len(spec)):
            imm(i)
        for i, (t, slots) in enumerate(spec):
            if t not in ('dict', 'list', 'set'):
                continue
            for pos, s in enumerate(slots):
                v = s[1] if s[0] == 'L' else objs[s[1]]
                if t == 'dict':
                    objs[i][DICT_KEYS[pos]] = v
                elif t == 'list':
                    objs[i].append(v)
                else:
                    n = len(objs[i])
                    objs[i].add(v)
                    if len(objs[i]) == n:
                        raise ValueError('collapsing members')
    except (TypeError, ValueError):
        return None
    return objs[0]


def spec_source(spec):
    """python source that builds the structure of `spec` and binds it to `root`"""
    lines, done = [], set()
    for i, (t, _) in enumerate(spec):
        if t in ('dict', 'list', 'set'):
            lines.append('n%d = %s()' % (i, t))
            done.add(i)

    def ref(s):
        return repr(s[1]) if s[0] == 'L' else 'n%d' % s[1]

    def imm(i):
        if i in done:
            return
        done.add(i)
        t, slots = spec[i]
        for s in slots:
            if s[0] == 'R':
                imm(s[1])
        inner = ', '.join(ref(s) for s in slots)
        lines.append('n%d = (%s%s)' % (i, inner, ',' if len(slots) == 1 else '') if t == 'tuple'
                     else 'n%d = frozenset([%s])' % (i, inner))
    for i in range(len(spec)):
        imm(i)
    for i, (t, slots) in enumerate(spec):
        for pos, s in enumerate(slots):
            if t == 'dict':
                lines.append('n%d[%r] = %s' % (i, DICT_KEYS[pos], ref(s)))
            elif t == 'list':
                lines.append('n%d.append(%s)' % (i, ref(s)))
            elif t == 'set':
                lines.append('n%d.add(%s)' % (i, ref(s)))
    lines.append('root = n0')
    return '\n'.join(lines) + '\n'
