"""Reference model for C11, written from the property statement (not from setutils): a plain Python
list `m` holding the distinct items in first-insertion order with the deletions applied.  The set
algebra returns lists "ordered by first appearance in self and then in the other operands"; the
contents of every result are cross-checked here against the builtin set operation.
Operands are arbitrary iterables (set, frozenset, list, tuple, IndexedSet); each is read once with list().
"""


def _dedupe(seq):
    seen, out = set(), []
    for x in seq:
        if x not in seen:
            seen.add(x)
            out.append(x)
    return out


class RefOrderedSet:
    def __init__(self, items=()):
        self.m = _dedupe(items)

    # ---- list / set style mutation ----
    def add(self, x):
        if x not in self.m:
            self.m.append(x)

    def remove(self, x):
        if x not in self.m:
            raise KeyError(x)      # statement silent on the exception class
        self.m.remove(x)

    def discard(self, x):
        if x in self.m:
            self.m.remove(x)

    def pop(self, index=-1):
        return self.m.pop(index)   # IndexError like a list

    def clear(self):
        del self.m[:]

    def sort(self, **kw):
        self.m.sort(**kw)

    def reverse(self):
        self.m.reverse()

    # ---- pure set algebra: lists in the required order ----
    def union(self, *others):
        res = _dedupe(self.m + [x for o in others for x in list(o)])
        assert set(res) == set(self.m).union(*[set(o) for o in others])
        return res

    def intersection(self, *others):
        sets = [set(o) for o in others]
        res = [x for x in self.m if all(x in t for t in sets)]
        assert set(res) == set(self.m).intersection(*sets)
        return res

    def difference(self, *others):
        sets = [set(o) for o in others]
        res = [x for x in self.m if not any(x in t for t in sets)]
        assert set(res) == set(self.m).difference(*sets)
        return res

    def symmetric_difference(self, other):
        other = list(other)
        t, mine = set(other), set(self.m)
        res = [x for x in self.m if x not in t] + _dedupe([x for x in other if x not in mine])
        assert set(res) == mine.symmetric_difference(t)
        return res

    def issubset(self, other):
        return set(self.m).issubset(set(other))

    def issuperset(self, other):
        return set(self.m).issuperset(set(other))

    def isdisjoint(self, other):
        return set(self.m).isdisjoint(set(other))

    # ---- in-place forms ----
    def update(self, *others):
        self.m = self.union(*others)

    def intersection_update(self, *others):
        self.m = self.intersection(*others)

    def difference_update(self, *others):
        self.m = self.difference(*others)

    def symmetric_difference_update(self, other):
        self.m = self.symmetric_difference(other)
