"""Interposition on the file-system calls and file-object methods boltons.fileutils performs during an
atomic save (shared by the bounded checks C04 = crash-point replay and C05 = fault injection, and by their
replay snippets).

While *armed*, every call below that names a path under `root` (or an fd / file object opened on such a
path) is an **event**: it is appended to `log` and may be turned into a crash (`os._exit` immediately before
or after the call - C04) or into an injected `OSError` (C05):

  os: lstat stat chmod unlink remove truncate rename replace link open fdopen fsync fdatasync fchmod
      ftruncate write close;  builtins.open / io.open;  fcntl.fcntl;
  on the file object returned by os.fdopen / open (a transparent proxy): write flush close truncate.

Per open handle the interposer keeps what the OS contract says about the data: `du` (bytes still in the
user-space buffer), `dk` (bytes in the kernel not yet fsync-ed), `open`; the snapshot of the source's handles
is recorded at every rename/replace/link event (publication obligation of C04).
"""
import builtins
import errno
import io
import json
import os
import shutil
import stat as _stat
import tempfile

try:
    import fcntl as _fcntl
except ImportError:  # pragma: no cover
    _fcntl = None

OLD = b'OLD-CONTENT line\n' * 3
OLD_MODE = 0o640
STALE = b'STALE part file of somebody else\n' * 40
STALE_MODE = 0o606
RACER = b'written by a concurrent process\n'
DEST, PART = 'dest.dat', 'dest.dat.part'

PATH_FUNCS = dict(lstat=('path',), stat=('path',), chmod=('path',), unlink=('path',), remove=('path',),
                  truncate=('path',), rename=('src', 'dst'), replace=('src', 'dst'), link=('src', 'dst'))
FD_FUNCS = ('fsync', 'fdatasync', 'fchmod', 'ftruncate', 'write', 'close')
PUBLISH_OPS = ('rename', 'replace', 'link')


_CACHE = {}


class BodyError(BaseException):
    """what the with-body raises; deliberately NOT an Exception subclass (like KeyboardInterrupt/SystemExit/GeneratorExit): the
    statement covers every way a body can fail, and code that only handles Exception subclasses must not publish"""


def chunks_for(pattern, text):
    """write pattern of the with-body, by name (bytes; ASCII-decoded for text mode)"""
    if pattern == 'none':
        ch = []
    elif pattern == 'one':
        ch = [b'hello, complete new content\n']
    elif pattern == 'two':
        ch = [b'first write\n', b'second write\n']
    elif pattern == 'many':  # 9000 > default buffer: part of the data reaches the kernel before flush
        ch = [b'a' * 10, b'line\r\n', b'x' * 9000, b'', b'tail\n', b'y' * 3000, b'end']
    elif pattern == 'large':
        if 'large' not in _CACHE:  # 1 MiB, every 8-byte block distinct
            _CACHE['large'] = b''.join(b'%07d|' % i for i in range(1 << 17))
        ch = [_CACHE['large']]
    elif pattern.startswith('rand:'):
        import random
        rnd = random.Random(pattern)
        ch = [bytes(bytearray(rnd.randrange(32, 127) for _ in range(rnd.choice((0, 1, 7, 100, 5000, 20000)))))
              for _ in range(rnd.randrange(1, 9))]
    else:
        raise ValueError(pattern)
    return [c.decode('ascii') for c in ch] if text else ch


def expected_bytes(chunks, text):
    """oracle for the complete new content: io.BytesIO (under a default TextIOWrapper in text mode)"""
    b = io.BytesIO()
    if not text:
        for c in chunks:
            b.write(c)
        return b.getvalue()
    t = io.TextIOWrapper(b)
    for c in chunks:
        t.write(c)
    t.flush()
    return b.getvalue()


class FileProxy(object):
    """stands for the part-file object; write/flush/close/truncate are events"""

    def __init__(self, interposer, fobj, handle):
        self.__dict__.update(_I=interposer, _f=fobj, _h=handle)
        handle['fobj'] = fobj
        handle['raw'] = isinstance(fobj, io.RawIOBase)

    def __getattr__(self, name):
        return getattr(self._f, name)

    def _ev(self, op, thunk):
        I = self._I
        if not I.armed or I.depth:
            return thunk()
        return I._event(op, [self._h['path']], thunk)

    def write(self, data):
        r = self._ev('f.write', lambda: self._f.write(data))
        if len(data):
            self._h['dk' if self._h['raw'] else 'du'] = True
        return r

    def writelines(self, lines):
        for line in lines:
            self.write(line)

    def flush(self):
        r = self._ev('f.flush', self._f.flush)
        h = self._h
        if h['du']:
            h['du'], h['dk'] = False, True
        return r

    def truncate(self, *a):
        r = self._ev('f.truncate', lambda: self._f.truncate(*a))
        self._h['dk'] = True
        return r

    def close(self):
        h = self._h
        try:
            return self._ev('f.close', self._f.close)
        finally:
            if self._f.closed:
                if h['du']:
                    h['du'], h['dk'] = False, True
                h['open'] = False

    def __enter__(self):
        return self

    def __exit__(self, *a):
        self.close()

    def __iter__(self):
        return iter(self._f)

    def __next__(self):
        return next(self._f)


class Interposer(object):
    def __init__(self, root, faults=(), crash=None, pipe=None, fault_errno=errno.EIO):
        self.root = os.path.realpath(root)
        self.faults = set(faults)
        self.fault_errno = fault_errno
        self.crash = tuple(crash) if crash else None
        self.pipe = pipe
        self.log = []
        self.handles = []
        self.fds = {}
        self.armed = False
        self.depth = 0
        self.phase = 'enter'
        self.racer_ran = False
        self._saved = []

    # -- plumbing ---------------------------------------------------------------------------------
    def rel(self, v):
        if isinstance(v, bool) or v is None:
            return None
        if isinstance(v, int):
            h = self.fds.get(v)
            return h['path'] if h else None
        if hasattr(v, 'fileno') and not isinstance(v, (str, bytes)):
            try:
                return self.rel(v.fileno())
            except Exception:
                return None
        try:
            p = os.fspath(v)
        except TypeError:
            return None
        if isinstance(p, bytes):
            p = os.fsdecode(p)
        p = os.path.abspath(p)
        if p == self.root:
            return '.'
        if p.startswith(self.root + os.sep):
            return p[len(self.root) + 1:]
        return None

    def _die(self):
        if self.pipe is not None:
            _send(self.pipe, dict(log=self.log, died=True))
        os._exit(77)

    def _event(self, op, paths, thunk, **extra):
        k = len(self.log)
        rec = dict(op=op, paths=paths, phase=self.phase)
        rec.update(extra)
        if op in PUBLISH_OPS:
            rec['src_state'] = [[h['du'], h['dk'], h['open']] for h in self.handles if h['path'] == paths[0]]
        self.log.append(rec)
        if self.crash == (k, 'before'):
            self._die()
        self.depth += 1
        try:
            if k in self.faults:
                rec['fault'] = True
                if op in ('f.close', 'close'):  # close reports the error after releasing the descriptor
                    try:
                        thunk()
                    except Exception:
                        pass
                err = OSError(self.fault_errno, 'injected fault at event %d (%s)' % (k, op))
                err.verif_event = k
                raise err
            try:
                return thunk()
            except BaseException as e:
                rec['raised'] = type(e).__name__
                raise
        finally:
            self.depth -= 1
            if self.crash == (k, 'after'):
                self._die()

    def _new_handle(self, path, fd):
        h = dict(path=path, fd=fd, du=False, dk=False, open=True, raw=False, fobj=None)
        self.handles.append(h)
        self.fds[fd] = h
        return h

    # -- wrappers ---------------------------------------------------------------------------------
    def _mk_path(self, name, real, keys):
        def w(*a, **kw):
            if not self.armed or self.depth:
                return real(*a, **kw)
            paths = [self.rel(a[i] if i < len(a) else kw.get(k)) for i, k in enumerate(keys)]
            if not any(paths):
                return real(*a, **kw)
            return self._event(name, paths, lambda: real(*a, **kw))
        return w

    def _mk_fd(self, name, real):
        def w(fd, *a, **kw):
            h = self.fds.get(fd) if isinstance(fd, int) else None
            if not self.armed or self.depth or h is None:
                return real(fd, *a, **kw)
            try:
                r = self._event(name, [h['path']], lambda: real(fd, *a, **kw))
            finally:
                if name == 'close':
                    h['open'] = False
                    self.fds.pop(fd, None)
            if name in ('fsync', 'fdatasync'):
                h['dk'] = False
            elif name in ('write', 'ftruncate'):
                h['dk'] = True
            return r
        return w

    def _os_open(self, real):
        def w(path, flags, mode=0o777, **kw):
            p = self.rel(path)
            if not self.armed or self.depth or p is None:
                return real(path, flags, mode, **kw)
            fd = self._event('open', [p], lambda: real(path, flags, mode, **kw), flags=flags, mode=mode)
            self._new_handle(p, fd)
            return fd
        return w

    def _fdopen(self, real, name):
        def w(file, *a, **kw):
            p = self.rel(file)
            if not self.armed or self.depth or p is None:
                return real(file, *a, **kw)
            isfd = isinstance(file, int)
            mode = a[0] if a else kw.get('mode', 'r')
            f = self._event('fdopen' if isfd else name, [p], lambda: real(file, *a, **kw), pymode=mode)
            h = self.fds.get(file) if isfd else None
            if h is None:
                try:
                    fd = f.fileno()
                except Exception:
                    fd = -1
                h = self._new_handle(p, fd)
            return FileProxy(self, f, h)
        return w

    def _fcntl(self, real):
        def w(fd, *a, **kw):
            p = self.rel(fd)
            if not self.armed or self.depth or p is None:
                return real(fd, *a, **kw)
            return self._event('fcntl', [p], lambda: real(fd, *a, **kw))
        return w

    def patch(self):
        def setp(mod, name, new):
            self._saved.append((mod, name, getattr(mod, name)))
            setattr(mod, name, new)
        for name, keys in PATH_FUNCS.items():
            if hasattr(os, name):
                setp(os, name, self._mk_path(name, getattr(os, name), keys))
        for name in FD_FUNCS:
            if hasattr(os, name):
                setp(os, name, self._mk_fd(name, getattr(os, name)))
        setp(os, 'open', self._os_open(os.open))
        setp(os, 'fdopen', self._fdopen(os.fdopen, 'fdopen'))
        pyopen = self._fdopen(builtins.open, 'pyopen')
        setp(builtins, 'open', pyopen)
        setp(io, 'open', pyopen)
        if _fcntl is not None:
            setp(_fcntl, 'fcntl', self._fcntl(_fcntl.fcntl))

    def unpatch(self):
        for mod, name, old in reversed(self._saved):
            setattr(mod, name, old)
        self._saved = []

    def release(self):
        """close whatever the code under test left open (after unpatch)"""
        for h in self.handles:
            try:
                if h['fobj'] is not None:
                    h['fobj'].close()
                elif h['open'] and h['fd'] >= 0:
                    os.close(h['fd'])
            except Exception:
                pass
            h['fobj'] = None


def _send(fd, obj):
    data = json.dumps(obj).encode()
    while data:
        n = os.write(fd, data)
        data = data[n:]


# -------------------------------------------------------------------------------------------------
# one save, as a client of the public API

def save_kwargs(cfg):
    kw = dict(overwrite=cfg.get('overwrite', True), text_mode=cfg.get('text', False))
    for k_cfg, k_kw in (('overwrite_part', 'overwrite_part'), ('rm_part', 'rm_part_on_exc'), ('perms', 'file_perms'),
                        ('buffering', 'buffering')):
        if cfg.get(k_cfg) is not None:
            kw[k_kw] = cfg[k_cfg]
    return kw


def do_save(I, dest, cfg):
    """`with atomic_save(dest, **flags) as f: BODY`; returns the exception that reached the caller or None"""
    from boltons import fileutils
    chunks = chunks_for(cfg.get('pattern', 'one'), cfg.get('text', False))
    body = cfg.get('body', 'ok')
    if I is None:
        I = Interposer(os.path.dirname(dest))
    I.phase = 'enter'
    I.armed = True
    try:
        if cfg.get('api') == 'AtomicSaver':
            cm = fileutils.AtomicSaver(dest, **save_kwargs(cfg))
        else:
            cm = fileutils.atomic_save(dest, **save_kwargs(cfg))
        with cm as f:
            I.phase = 'body'
            try:
                for c in chunks:
                    f.write(c)
                if body == 'racer':  # another process creates the destination meanwhile (not an event of ours)
                    I.armed = False
                    with open(dest, 'wb') as r:
                        r.write(RACER)
                    I.armed = True
                    I.racer_ran = True
                if body == 'raise':
                    raise BodyError('the with-body failed')
            finally:
                I.phase = 'exit'
        I.phase = 'done'
        return None
    except BaseException as e:  # noqa
        return e
    finally:
        I.armed = False


def setup_dir(sub, cfg):
    dest, part = os.path.join(sub, DEST), os.path.join(sub, PART)
    if cfg.get('dpresent'):
        with open(dest, 'wb') as f:
            f.write(OLD)
        os.chmod(dest, OLD_MODE)
    if cfg.get('ppresent'):
        with open(part, 'wb') as f:
            f.write(STALE)
        os.chmod(part, STALE_MODE)
    return dest, part


def observe(path):
    """(bytes, mode, inode) or None"""
    try:
        st = os.lstat(path)
    except OSError:
        return None
    if not _stat.S_ISREG(st.st_mode):
        return ('<not a regular file>', _stat.S_IMODE(st.st_mode), st.st_ino)
    with open(path, 'rb') as f:
        return (f.read(), _stat.S_IMODE(st.st_mode), st.st_ino)


def crash_run(cfg, crash=None, root=None):
    """run one save in a forked child that dies at `crash` = (k, 'before'|'after') of its k-th event (None:
    runs to the end). Returns dict(status, log, outcome, dest, part, listing); the directory is removed."""
    sub = tempfile.mkdtemp(prefix='c04-', dir=root)
    try:
        sub = os.path.realpath(sub)
        dest, part = setup_dir(sub, cfg)
        r, w = os.pipe()
        pid = os.fork()
        if pid == 0:  # ---- child: never returns
            code = 3
            try:
                os.close(r)
                if cfg.get('relative'):
                    os.chdir(sub)
                I = Interposer(sub, crash=crash, pipe=w)
                I.patch()
                e = do_save(I, DEST if cfg.get('relative') else dest, cfg)
                I.unpatch()
                _send(w, dict(log=I.log, died=False, outcome=None if e is None else '%s: %s' % (type(e).__name__, e)))
                code = 0 if e is None else 1
            except BaseException as e:  # noqa
                try:
                    import traceback
                    _send(w, dict(log=[], died=False, internal=traceback.format_exc()[-1500:]))
                except BaseException:  # noqa
                    pass
            finally:
                os._exit(code)
        os.close(w)
        buf = b''
        while True:
            d = os.read(r, 1 << 16)
            if not d:
                break
            buf += d
        os.close(r)
        _, st = os.waitpid(pid, 0)
        msg = json.loads(buf.decode()) if buf else dict(log=[], died=None)
        msg['status'] = os.WEXITSTATUS(st) if os.WIFEXITED(st) else -os.WTERMSIG(st)
        d, p = observe(dest), observe(part)
        msg['dest'] = d[0] if d else None
        msg['part'] = p[0] if p else None
        msg['listing'] = sorted(os.listdir(sub))
        return msg
    finally:
        shutil.rmtree(sub, ignore_errors=True)


def fault_run(cfg, faults=(), root=None, retry=False, fault_errno=errno.EIO):
    """run one save in this process with OSError injected at the events whose indices are in `faults`,
    under cfg['umask']. Returns dict(exc, log, pre_dest, pre_part, dest, part, listing[, retry_exc,
    retry_dest, retry_part]); `retry` may be a predicate on the result; the directory is removed."""
    sub = tempfile.mkdtemp(prefix='c05-', dir=root)
    prev_umask = os.umask(cfg.get('umask', 0o022))
    try:
        sub = os.path.realpath(sub)
        dest, part = setup_dir(sub, cfg)
        res = dict(pre_dest=observe(dest), pre_part=observe(part))
        I = Interposer(sub, faults=faults, fault_errno=fault_errno)
        I.patch()
        try:
            e = do_save(I, dest, cfg)
        finally:
            I.unpatch()
            I.release()
        res.update(exc=e, log=I.log, racer_ran=I.racer_ran, dest=observe(dest), part=observe(part), listing=sorted(os.listdir(sub)))
        if retry(res) if callable(retry) else retry:
            cfg2 = dict(cfg, body='ok')
            res['retry_exc'] = do_save(None, dest, cfg2)
            res.update(retry_dest=observe(dest), retry_part=observe(part))
        return res
    finally:
        os.umask(prev_umask)
        shutil.rmtree(sub, ignore_errors=True)
