"""Scripted socket object + reference model of the BufferedSocket receive calls (C12).

ScriptedSocket implements exactly the socket contract assumed in DESIGN.md section 3 / C12:
  recv(n)  -> the next scripted chunk truncated to n bytes, the rest of the chunk stays pending;
              raises socket.timeout where the script says 'T'; b'' after the scripted end (peer closed)
  send(b)  -> accepts the scripted number of bytes (at least 1, at most len(b)) or raises socket.timeout
              where the script says 'T'; accepts everything once the send script is used up
The script is a list whose items are bytes chunks or the string 'T'.

The reference model is written from the property statement / the documented meaning of the calls and is a
function of the *remaining stream* R (= buffered ++ not yet delivered; the peer closes after R) only:
  recv_size(n)            R[:n] and R' = R[n:]           | ConnectionClosed if len(R) < n
  peek(n)                 R[:n] and R' = R               | ConnectionClosed if len(R) < n
  recv_close(maxsize)     R and R' = b''                 | MessageTooLong if len(R) > maxsize
  recv_until(d, maxsize)  R[:o] (+d) and R' = R[o+len(d):] where o = first occurrence of d, if the
                          occurrence lies within the first maxsize bytes
                          | MessageTooLong if len(R) > maxsize | ConnectionClosed otherwise
  recv(n)                 any non-empty prefix of R of length <= n; b'' iff R is empty
"""
import socket

T = 'T'


class ScriptedSocket:
    def __init__(self, script=(), sends=(), timeout=None):
        self.script = list(script)
        self.i = 0
        self.cur = b''
        self.sends = list(sends)
        self.j = 0
        self.wire = b''
        self.timeouts = 0          # socket.timeout raised so far (recv and send)
        self.recv_calls = 0
        self.eofs = 0
        self._timeout = timeout
        self.closed = False

    # -- what BufferedSocket needs ----------------------------------------------------------
    def settimeout(self, t):
        self._timeout = t

    def gettimeout(self):
        return self._timeout

    def recv(self, n, flags=0):
        self.recv_calls += 1
        while not self.cur and self.i < len(self.script):
            item = self.script[self.i]
            self.i += 1
            if isinstance(item, str):
                self.timeouts += 1
                raise socket.timeout('timed out')
            self.cur = item
        out, self.cur = self.cur[:n], self.cur[n:]
        if not out:
            self.eofs += 1
            if self.eofs > 50:      # a reader that does not stop at end of stream must not hang the check
                raise OverflowError('recv called more than 50 times after the peer closed')
        return out

    def send(self, data, flags=0):
        k = len(data)
        if self.j < len(self.sends):
            item = self.sends[self.j]
            self.j += 1
            if isinstance(item, str):
                self.timeouts += 1
                raise socket.timeout('timed out')
            k = max(1, min(item, len(data))) if data else 0
        self.wire += data[:k]
        return k

    def close(self):
        self.closed = True

    def shutdown(self, how):
        pass

    def fileno(self):
        return -1

    # -- ghost ------------------------------------------------------------------------------
    def pending(self):
        "bytes of the stream the socket has not delivered yet"
        return self.cur + b''.join(x for x in self.script[self.i:] if not isinstance(x, str))

    def position(self):
        return (self.i, self.cur)


# calls are tuples: ('recv_until', delim, maxsize, with_delimiter) ('recv_size', n) ('peek', n)
#                   ('recv', n) ('recv_close', maxsize)
def model(R, call):
    """-> (outcome, R') with outcome = ('ret', value) | ('ConnectionClosed',) | ('MessageTooLong',).
    For 'recv' the outcome is ('prefix', max_len) (any non-empty prefix; b'' iff R is empty)."""
    op = call[0]
    if op in ('recv_size', 'peek'):
        n = call[1]
        if len(R) < n:
            return ('ConnectionClosed',), R
        return ('ret', R[:n]), (R[n:] if op == 'recv_size' else R)
    if op == 'recv_close':
        m = call[1]
        if m is not None and len(R) > m:
            return ('MessageTooLong',), R
        return ('ret', R), b''
    if op == 'recv_until':
        d, m, wd = call[1], call[2], call[3]
        o = R.find(d)
        if o != -1 and (m is None or o + len(d) <= m):
            return ('ret', R[:o + len(d)] if wd else R[:o]), R[o + len(d):]
        if m is not None and len(R) > m:
            return ('MessageTooLong',), R
        return ('ConnectionClosed',), R
    if op == 'recv':
        return ('prefix', call[1]), None
    raise ValueError(call)


def consumed(call, value):
    "bytes of the stream that left the system when `call` returned `value`"
    if call[0] == 'peek':
        return b''
    if call[0] == 'recv_until' and not call[3]:
        return value + call[1]
    return value


def netstring(payload):
    return str(len(payload)).encode('ascii') + b':' + payload + b','


def compositions(data):
    "every way of cutting `data` into non-empty consecutive chunks (2**(len-1) of them; [] for b'')"
    n = len(data)
    if n == 0:
        yield []
        return
    for mask in range(1 << (n - 1)):
        out, start = [], 0
        for k in range(1, n):
            if mask >> (k - 1) & 1:
                out.append(data[start:k])
                start = k
        out.append(data[start:])
        yield out


def with_timeouts(chunks, max_t=2):
    """every placement of <= max_t timeouts in the len(chunks)+1 slots (before each chunk, before the
    close); two timeouts may share a slot"""
    s = len(chunks) + 1
    yield list(chunks)
    if max_t >= 1:
        for a in range(s):
            yield _place(chunks, (a,))
    if max_t >= 2:
        for a in range(s):
            for b in range(a, s):
                yield _place(chunks, (a, b))


def _place(chunks, slots):
    out = []
    for k in range(len(chunks) + 1):
        out.extend([T] * slots.count(k))
        if k < len(chunks):
            out.append(chunks[k])
    return out
