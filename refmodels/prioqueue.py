"""Reference model for C10, written from the property statement (not from queueutils).

A priority queue is a bag of live tasks; each live task carries (rank, arrival).  `add` of a task
(live or not) gives it a fresh arrival stamp and the new rank; the next task is the live task with
the best rank, earliest arrival among equals.  Default ranking: larger priority first, None == 0.
With a `priority_key` (documented: "returns a real number representing the effective priority",
the default one negates) the smallest key value goes first.
"""


class RefPriorityQueue:
    def __init__(self, priority_key=None):
        self.live = {}          # task -> (rank, arrival); smaller tuple pops first
        self.clock = 0
        self.key = priority_key

    def rank(self, priority):
        if self.key is not None:
            return self.key(priority)
        return -(0 if priority is None else priority)

    def add(self, task, priority=None):
        self.live.pop(task, None)
        self.clock += 1
        self.live[task] = (self.rank(priority), self.clock)

    def remove(self, task):
        del self.live[task]     # KeyError when absent: the statement is silent about that case

    def first(self):
        if not self.live:
            raise IndexError('empty')
        return min(self.live, key=self.live.get)

    def pop(self):
        t = self.first()
        del self.live[t]
        return t

    def order(self):
        "all live tasks in the order successive pops must return them"
        return sorted(self.live, key=self.live.get)

    def has_ties(self):
        ranks = [r for r, _ in self.live.values()]
        return len(set(ranks)) < len(ranks)

    def __len__(self):
        return len(self.live)

    def __contains__(self, task):
        return task in self.live
