"""RFC 3986 section 5.2 (reference resolution) transcribed literally, on text.

Nothing here imports boltons.  Names follow the RFC pseudocode: R = reference, Base, T = target;
a component is `None` when "undefined" and '' when defined but empty.

  parse(text)              Appendix B regular expression -> (scheme, authority, path, query, fragment)
  remove_dot_segments(p)   5.2.4, the input-buffer / output-buffer loop, step by step
  merge(base, rpath)       5.2.3
  transform(base, ref)     5.2.2 (strict: a reference scheme equal to the base scheme is NOT ignored)
  recompose(T)             5.3
  resolve(base, ref)       recompose(transform(parse(base), parse(ref)))
  rds_fold(parts)          segment-level form of 5.2.4 (fold over the '/'-split path), kept separate so
                           that its equality with the text form can itself be checked (self_check)
  self_check()             5.4.1 + 5.4.2 example tables, rds_fold == remove_dot_segments on all
                           paths <= 6 segments over {'', '.', '..', 'a', 'b'}, comparison with urljoin
"""
import itertools
import re

_APPENDIX_B = re.compile(r'^(([^:/?#]+):)?(//([^/?#]*))?([^?#]*)(\?([^#]*))?(#(.*))?', re.S)


def parse(text):
    m = _APPENDIX_B.match(text)
    return (m.group(2), m.group(4), m.group(5), m.group(7), m.group(9))


def remove_dot_segments(path):
    inp, out = path, ''                                   # step 1
    while inp:                                            # step 2
        if inp.startswith('../'):                         # 2A
            inp = inp[3:]
        elif inp.startswith('./'):
            inp = inp[2:]
        elif inp.startswith('/./'):                       # 2B
            inp = '/' + inp[3:]
        elif inp == '/.':
            inp = '/'
        elif inp.startswith('/../'):                      # 2C
            inp = '/' + inp[4:]
            out = out[:out.rfind('/')] if '/' in out else ''
        elif inp == '/..':
            inp = '/'
            out = out[:out.rfind('/')] if '/' in out else ''
        elif inp in ('.', '..'):                          # 2D
            inp = ''
        else:                                             # 2E
            j = inp.find('/', 1)
            if j < 0:
                j = len(inp)
            out, inp = out + inp[:j], inp[j:]
    return out                                            # step 3


def merge(base, rpath):
    b_authority, b_path = base[1], base[2]
    if b_authority is not None and b_path == '':
        return '/' + rpath
    return b_path[:b_path.rfind('/') + 1] + rpath         # rfind == -1 -> whole base path excluded


def transform(base, ref):
    b_scheme, b_auth, b_path, b_query, _ = base
    r_scheme, r_auth, r_path, r_query, r_frag = ref
    if r_scheme is not None:
        t_scheme, t_auth, t_path, t_query = r_scheme, r_auth, remove_dot_segments(r_path), r_query
    else:
        if r_auth is not None:
            t_auth, t_path, t_query = r_auth, remove_dot_segments(r_path), r_query
        else:
            if r_path == '':
                t_path = b_path
                t_query = r_query if r_query is not None else b_query
            else:
                if r_path.startswith('/'):
                    t_path = remove_dot_segments(r_path)
                else:
                    t_path = remove_dot_segments(merge(base, r_path))
                t_query = r_query
            t_auth = b_auth
        t_scheme = b_scheme
    return (t_scheme, t_auth, t_path, t_query, r_frag)


def recompose(t):
    scheme, authority, path, query, fragment = t
    result = ''
    if scheme is not None:
        result += scheme + ':'
    if authority is not None:
        result += '//' + authority
    result += path
    if query is not None:
        result += '?' + query
    if fragment is not None:
        result += '#' + fragment
    return result


def resolve(base_text, ref_text):
    return recompose(transform(parse(base_text), parse(ref_text)))


def rds_fold(parts):
    """segment form: parts = path.split('/') of a path that is empty or starts with '/'
    (parts[0] == '').  Returns the parts of remove_dot_segments(path)."""
    out = []
    for p in parts:
        if p == '.':
            continue
        if p == '..':
            if len(out) > 1:
                out.pop()
            continue
        out.append(p)
    if parts and parts[-1] in ('.', '..'):
        out.append('')
    return out


# RFC 3986 5.4: base and the two example tables
BASE_5_4 = 'http://a/b/c/d;p?q'
NORMAL_5_4_1 = [
    ('g:h', 'g:h'), ('g', 'http://a/b/c/g'), ('./g', 'http://a/b/c/g'), ('g/', 'http://a/b/c/g/'),
    ('/g', 'http://a/g'), ('//g', 'http://g'), ('?y', 'http://a/b/c/d;p?y'), ('g?y', 'http://a/b/c/g?y'),
    ('#s', 'http://a/b/c/d;p?q#s'), ('g#s', 'http://a/b/c/g#s'), ('g?y#s', 'http://a/b/c/g?y#s'),
    (';x', 'http://a/b/c/;x'), ('g;x', 'http://a/b/c/g;x'), ('g;x?y#s', 'http://a/b/c/g;x?y#s'),
    ('', 'http://a/b/c/d;p?q'), ('.', 'http://a/b/c/'), ('./', 'http://a/b/c/'), ('..', 'http://a/b/'),
    ('../', 'http://a/b/'), ('../g', 'http://a/b/g'), ('../..', 'http://a/'), ('../../', 'http://a/'),
    ('../../g', 'http://a/g')]
ABNORMAL_5_4_2 = [
    ('../../../g', 'http://a/g'), ('../../../../g', 'http://a/g'), ('/./g', 'http://a/g'),
    ('/../g', 'http://a/g'), ('g.', 'http://a/b/c/g.'), ('.g', 'http://a/b/c/.g'), ('g..', 'http://a/b/c/g..'),
    ('..g', 'http://a/b/c/..g'), ('./../g', 'http://a/b/g'), ('./g/.', 'http://a/b/c/g/'),
    ('g/./h', 'http://a/b/c/g/h'), ('g/../h', 'http://a/b/c/h'), ('g;x=1/./y', 'http://a/b/c/g;x=1/y'),
    ('g;x=1/../y', 'http://a/b/c/y'), ('g?y/./x', 'http://a/b/c/g?y/./x'), ('g?y/../x', 'http://a/b/c/g?y/../x'),
    ('g#s/./x', 'http://a/b/c/g#s/./x'), ('g#s/../x', 'http://a/b/c/g#s/../x'),
    ('http:g', 'http:g')]                                 # strict parser


def self_check(max_segments=6):
    """raises AssertionError when the transcription is wrong; returns a dict of counts."""
    for ref, want in NORMAL_5_4_1 + ABNORMAL_5_4_2:
        got = resolve(BASE_5_4, ref)
        assert got == want, 'RFC 3986 5.4 example %r: transcription gives %r, RFC says %r' % (ref, got, want)
    assert remove_dot_segments('/a/b/c/./../../g') == '/a/g'          # the two worked examples of 5.2.4
    assert remove_dot_segments('mid/content=5/../6') == 'mid/6'
    n = 0
    for k in range(0, max_segments + 1):
        for segs in itertools.product(('', '.', '..', 'a', 'b'), repeat=k):
            path = '/' + '/'.join(segs) if k else ''
            parts = path.split('/') if path else []
            want = remove_dot_segments(path)
            got = '/'.join(rds_fold(parts))
            assert got == want, 'rds_fold differs from 5.2.4 on %r: %r vs %r' % (path, got, want)
            assert '/./' not in want + '/' and '/../' not in want + '/', (path, want)
            n += 1
    # comparison with the standard library (informational: urljoin is non-strict and keeps/strips some forms)
    from urllib.parse import urljoin
    diff = []
    for ref, _ in NORMAL_5_4_1 + ABNORMAL_5_4_2:
        if urljoin(BASE_5_4, ref) != resolve(BASE_5_4, ref):
            diff.append(ref)
    return dict(examples=len(NORMAL_5_4_1) + len(ABNORMAL_5_4_2), fold_paths=n, urljoin_differs_on=diff)


if __name__ == '__main__':
    print(self_check())
