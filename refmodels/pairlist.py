"""Reference model for C01: a plain insertion-ordered list of (key, value) pairs.

Written from the property statement, not from the boltons code:
  * add / addlist / update_extend append pairs;
  * assignment, update, |= replace ALL pairs of every key they mention (an OMD / iterable-of-pairs
    argument contributes all of its pairs, a mapping / kwargs contributes one pair per key);
  * pop / popall / del drop all pairs of the key, poplast drops the key's (or the global) last pair;
  * single-value reads (get, [], items()/values() with multi off, todict) see the key's most recent pair;
  * keys with multi off: each key once, in order of first appearance; reversed = that order reversed;
  * len = number of distinct keys; == with a pair-list compares the pair lists, with a plain mapping
    compares the key sets and the visible values.
Keys are compared with == (hashable keys, same rule as dict).
"""
_NO = object()


class PairList:
    def __init__(self, pairs=()):
        self.p = [(k, v) for k, v in pairs]

    def clone(self):
        return PairList(self.p)

    # ---- helpers ---------------------------------------------------------------------------
    def has(self, k):
        return any(kk == k for kk, _ in self.p)

    def vals(self, k):
        return [v for kk, v in self.p if kk == k]

    def _drop(self, k):
        self.p = [(kk, v) for kk, v in self.p if not kk == k]

    # ---- mutators --------------------------------------------------------------------------
    def add(self, k, v):
        self.p.append((k, v))

    def addlist(self, k, vs):
        for v in list(vs):
            self.p.append((k, v))

    def setitem(self, k, v):
        self._drop(k)
        self.p.append((k, v))

    def delitem(self, k):
        if not self.has(k):
            raise KeyError(k)
        self._drop(k)

    def update(self, form, pairs, kw=()):
        """form 'mapping': one pair per key, assignment each; 'pairs' (iterable of pairs or an OMD):
        every key mentioned loses its old pairs, then all the argument's pairs are appended."""
        pairs = list(pairs)
        if form == 'mapping':
            for k, v in pairs:
                self.setitem(k, v)
        else:
            for k in dict.fromkeys(k for k, _ in pairs):
                self._drop(k)
            self.p.extend(pairs)
        for k, v in kw:
            self.setitem(k, v)

    def update_extend(self, pairs, kw=()):
        self.p.extend(list(pairs))
        self.p.extend(list(kw))

    def setdefault(self, k, default=None):
        if not self.has(k):
            self.setitem(k, default)
        return self.vals(k)[-1]

    def popall(self, k, default=_NO):
        if not self.has(k):
            if default is _NO:
                raise KeyError(k)
            return default
        vs = self.vals(k)
        self._drop(k)
        return vs

    def pop(self, k, default=_NO):
        if not self.has(k):
            if default is _NO:
                raise KeyError(k)
            return default
        return self.popall(k)[-1]

    def poplast(self, k=_NO, default=_NO):
        if k is _NO:
            if not self.p:
                if default is _NO:
                    raise KeyError('empty')
                return default
            k = self.p[-1][0]
        if not self.has(k):
            if default is _NO:
                raise KeyError(k)
            return default
        i = max(i for i, (kk, _) in enumerate(self.p) if kk == k)
        return self.p.pop(i)[1]

    def popitem_options(self):
        """the statement is silent on which pair(s) go: list of acceptable (result, pairs after)."""
        if not self.p:
            raise KeyError('empty')
        k, v = self.p[-1]
        return [((k, v), self.p[:-1]), ((k, v), [(kk, vv) for kk, vv in self.p if not kk == k])]

    def clear(self):
        self.p = []

    # ---- readers ---------------------------------------------------------------------------
    def keys(self, multi=False):
        if multi:
            return [k for k, _ in self.p]
        return list(dict.fromkeys(k for k, _ in self.p))

    def items(self, multi=False):
        if multi:
            return list(self.p)
        return [(k, self.vals(k)[-1]) for k in self.keys()]

    def values(self, multi=False):
        return [v for _, v in self.items(multi)]

    def reversed(self):
        return self.keys()[::-1]

    def len(self):
        return len(self.keys())

    def getitem(self, k):
        if not self.has(k):
            raise KeyError(k)
        return self.vals(k)[-1]

    def get(self, k, default=None):
        return self.vals(k)[-1] if self.has(k) else default

    def getlist(self, k, default=_NO):
        if self.has(k):
            return self.vals(k)
        return [] if default is _NO else default

    def todict(self, multi=False):
        return {k: (self.vals(k) if multi else self.vals(k)[-1]) for k in self.keys()}

    def counts(self):
        return [(k, len(self.vals(k))) for k in self.keys()]

    def inverted(self):
        for k, v in self.p:
            hash(v)
        return [(v, k) for k, v in self.p]

    def sorted(self, key=None, reverse=False):
        return sorted(self.p, key=key, reverse=reverse)

    def sortedvalues(self, key=None, reverse=False):
        per = {k: sorted(self.vals(k), key=key, reverse=reverse) for k in self.keys()}
        pos = {k: 0 for k in per}
        out = []
        for k, _ in self.p:
            out.append((k, per[k][pos[k]]))
            pos[k] += 1
        return out

    def eq_pairs(self, other_pairs):
        return self.p == list(other_pairs)

    def eq_mapping(self, mapping):
        ks = self.keys()
        return (len(mapping) == len(ks) and all(k in mapping for k in ks)
                and all(mapping[k] == self.vals(k)[-1] for k in ks))

    def repr(self, clsname):
        return '%s(%r)' % (clsname, self.p)
